/-
C01, stated about the gate kernels and constructors as translated from `/repo/src/operator/atomic/*.rs` on this run
(`tools/rs2lean.py`: the `atomic_op_kernel` / `atomic_op` bodies are `Gen.<gate>_op`, the constructors `Gen.<gate>_new`).
-/
import Qvnt.Props.C01
import Qvnt.Lemmas.GenKernels
import Qvnt.Lemmas.GenCtors
import Qvnt.Lemmas.GenMatrix

namespace Qvnt
open Qvnt.Spec

section
variable {R : Type} [CommRing R] [Consts R]

/-- **the translated one-qubit kernels** are the documented 2x2 matrices on the masked qubit, identity elsewhere -/
theorem C01_code_one_qubit (a : Nat) (ph : Cx R) (ψ : State R) (idx : Nat) :
    Gen.rx_op a ph ψ idx = act1 (matRX ph.re ph.im) a ψ idx ∧
    Gen.ry_op a ph ψ idx = act1 (matRY ph.re ph.im) a ψ idx ∧
    Gen.rz_op a ph ψ idx = act1 (matRZ ph.re ph.im) a ψ idx ∧
    Gen.h1_op a ψ idx = act1 matH a ψ idx := by
  obtain ⟨h1, h2, h3, h4⟩ := C01_one_qubit_kernels a ph ψ idx
  exact ⟨(Gen.rx_op_eq a ph ψ idx).trans h1, (Gen.ry_op_eq a ph ψ idx).trans h2, (Gen.rz_op_eq a ph ψ idx).trans h3,
    (Gen.h1_op_eq a ψ idx).trans h4⟩

/-- **the translated two-qubit kernels** are the documented 4x4 matrices on the two masked qubits `i ≠ j` (any
positions, adjacent or not, either order), identity elsewhere -/
theorem C01_code_two_qubit (i j : Nat) (h : i ≠ j) (ph : Cx R) (ψ : State R) (idx : Nat) :
    Gen.rxx_op (2 ^ i ||| 2 ^ j) ph ψ idx = act2 (matRXX ph.re ph.im) (2 ^ i) (2 ^ j) ψ idx ∧
    Gen.ryy_op (2 ^ i ||| 2 ^ j) ph ψ idx = act2 (matRYY ph.re ph.im) (2 ^ i) (2 ^ j) ψ idx ∧
    Gen.rzz_op (2 ^ i ||| 2 ^ j) ph ψ idx = act2 (matRZZ ph.re ph.im) (2 ^ i) (2 ^ j) ψ idx ∧
    Gen.swap_op (2 ^ i ||| 2 ^ j) ψ idx = act2 matSwap (2 ^ i) (2 ^ j) ψ idx ∧
    Gen.i_swap_op (2 ^ i ||| 2 ^ j) false ψ idx = act2 matISwap (2 ^ i) (2 ^ j) ψ idx ∧
    Gen.sqrt_swap_op (2 ^ i ||| 2 ^ j) false ψ idx = act2 matSqrtSwap (2 ^ i) (2 ^ j) ψ idx ∧
    Gen.sqrt_i_swap_op (2 ^ i ||| 2 ^ j) false ψ idx = act2 matSqrtISwap (2 ^ i) (2 ^ j) ψ idx := by
  obtain ⟨h1, h2, h3, h4, h5, h6, h7⟩ := C01_two_qubit_kernels i j h ph ψ idx
  exact ⟨(Gen.rxx_op_eq _ ph ψ idx).trans h1, (Gen.ryy_op_eq _ ph ψ idx).trans h2, (Gen.rzz_op_eq _ ph ψ idx).trans h3,
    (Gen.swap_op_eq _ ψ idx).trans h4, (Gen.i_swap_op_eq _ false ψ idx).trans h5,
    (Gen.sqrt_swap_op_eq _ false ψ idx).trans h6, (Gen.sqrt_i_swap_op_eq _ false ψ idx).trans h7⟩

/-- **`x y z s t` as translated, constructor and kernel together**, with a several-bit mask `m` (any 64-bit word): the
operator `<gate>::Op::new(m)` builds acts as the documented one-qubit matrix on each selected qubit. For `y` this includes
the power of `i` the constructor computes from the number of bits (`!(count_bits(m) + 1)` on 32 bits). -/
theorem C01_code_multi_bit (hs : 2 * (Consts.invSqrt2 : R) * Consts.invSqrt2 = 1) (m : Nat) (hm : m < 2 ^ 64)
    (ψ : State R) (idx : Nat) :
    (Gen.x_new m : Atom R).op ψ idx = actAll (onEach matX m) ψ idx ∧ Gen.x_op m ψ idx = actAll (onEach matX m) ψ idx ∧
    (Gen.y_new m : Atom R).op ψ idx = actAll (onEach matY m) ψ idx ∧
    (Gen.z_new m : Atom R).op ψ idx = actAll (onEach matZ m) ψ idx ∧ Gen.z_op m ψ idx = actAll (onEach matZ m) ψ idx ∧
    (Gen.s_new m : Atom R).op ψ idx = actAll (onEach matS m) ψ idx ∧ Gen.s_op m false ψ idx = actAll (onEach matS m) ψ idx ∧
    (Gen.t_new m : Atom R).op ψ idx = actAll (onEach matT m) ψ idx ∧ Gen.t_op m false ψ idx = actAll (onEach matT m) ψ idx := by
  obtain ⟨h1, h2, h3, h4, h5⟩ := C01_multi_bit hs m hm ψ idx
  refine ⟨?_, (Gen.x_op_eq m ψ idx).trans h1, ?_, ?_, (Gen.z_op_eq m ψ idx).trans h3, ?_,
    (Gen.s_op_eq m false ψ idx).trans h4, ?_, (Gen.t_op_eq m false ψ idx).trans h5⟩
  · rw [Gen.x_new_eq]; exact h1
  · rw [Gen.y_new_eq]; exact h2
  · rw [Gen.z_new_eq]; exact h3
  · rw [Gen.s_new_eq]; exact h4
  · rw [Gen.t_new_eq]; exact h5

end
end Qvnt

namespace Qvnt
open Qvnt.Spec Qvnt.Gen2

section ctors
variable {R : Type} [CommRing R] [Consts R] [Div R] [Trig R] [Rs.AngleConsts R]

omit [Div R] [Trig R] [Rs.AngleConsts R] in
private theorem single_apply' (g : Atom R) (ψ : State R) : MultiOp.apply [SingleOp.ofAtom g] ψ = g.op ψ := by
  funext idx
  simp [MultiOp.apply, MultiOp.applyBuffers, SingleOp.apply, SingleOp.ofAtom]

/-- **the public one-qubit rotation constructors as translated** (`op::rx / ry / rz / u1` of `src/operator/mod.rs`, through
`rotate::Op::new` and `single_op_checked!`): on a one-bit mask they build an operator that acts as the documented matrix of
the half-angle phase `(cos θ/2, sin θ/2)`; on every other mask they build nothing (`None`, the `expect` of the Rust
constructor then panics). -/
theorem C01_code_rot1 (θ : R) (a : Nat) :
    (popcount a = 1 →
      (∃ o, op_rx θ a = some o ∧ ∀ ψ : State R, MultiOp.apply o ψ = act1 (matRX (halfPhaseDiv θ).re (halfPhaseDiv θ).im) a ψ) ∧
      (∃ o, op_ry θ a = some o ∧ ∀ ψ : State R, MultiOp.apply o ψ = act1 (matRY (halfPhaseDiv θ).re (halfPhaseDiv θ).im) a ψ) ∧
      (∃ o, op_rz θ a = some o ∧ ∀ ψ : State R, MultiOp.apply o ψ = act1 (matRZ (halfPhaseDiv θ).re (halfPhaseDiv θ).im) a ψ) ∧
      (∃ o, op_u1 θ a = some o ∧ ∀ ψ : State R, MultiOp.apply o ψ = act1 (matRZ (halfPhaseDiv θ).re (halfPhaseDiv θ).im) a ψ)) ∧
    (popcount a ≠ 1 → op_rx θ a = none ∧ op_ry θ a = none ∧ op_rz θ a = none ∧ op_u1 θ a = none) := by
  rw [op_rx_eq, op_ry_eq, op_rz_eq, op_u1_eq]
  constructor
  · intro hp
    have k := fun ψ : State R => funext (fun idx => (C01_one_qubit_kernels a (halfPhaseDiv θ) ψ idx).1)
    have k2 := fun ψ : State R => funext (fun idx => (C01_one_qubit_kernels a (halfPhaseDiv θ) ψ idx).2.1)
    have k3 := fun ψ : State R => funext (fun idx => (C01_one_qubit_kernels a (halfPhaseDiv θ) ψ idx).2.2.1)
    refine ⟨⟨[SingleOp.ofAtom (.rx a (halfPhaseDiv θ))], ?_, fun ψ => (single_apply' _ ψ).trans (k ψ)⟩,
      ⟨[SingleOp.ofAtom (.ry a (halfPhaseDiv θ))], ?_, fun ψ => (single_apply' _ ψ).trans (k2 ψ)⟩,
      ⟨[SingleOp.ofAtom (.rz a (halfPhaseDiv θ))], ?_, fun ψ => (single_apply' _ ψ).trans (k3 ψ)⟩,
      ⟨[SingleOp.ofAtom (.rz a (halfPhaseDiv θ))], ?_, fun ψ => (single_apply' _ ψ).trans (k3 ψ)⟩⟩ <;>
    simp [Op.u1, Op.rx, Op.ry, Op.rz, Op.ofChecked, SingleOp.checked, Atom.isValid, hp, MultiOp.ofSingle, SingleOp.isId,
      SingleOp.ofAtom]
  · intro hp
    simp [Op.u1, Op.rx, Op.ry, Op.rz, Op.ofChecked, SingleOp.checked, Atom.isValid, hp]

/-- **the public two-qubit constructors as translated** (`op::rxx ryy rzz swap i_swap sqrt_swap sqrt_i_swap`): on a mask
with exactly two bits `2^i ||| 2^j` they build an operator acting as the documented 4x4 matrix on those qubits (half-angle
phase `cos / sin (θ * 0.5)` for `rxx`, `cos / sin (θ / 2)` for `ryy`, `rzz`, as the Rust constructors compute it); on a mask
with any other number of bits they build nothing. -/
theorem C01_code_two (θ : R) (ab : Nat) :
    (popcount ab ≠ 2 → op_rxx θ ab = none ∧ op_ryy θ ab = none ∧ op_rzz θ ab = none ∧ op_swap (R := R) ab = none ∧
      op_i_swap (R := R) ab = none ∧ op_sqrt_swap (R := R) ab = none ∧ op_sqrt_i_swap (R := R) ab = none) ∧
    (∀ i j, i ≠ j → ab = 2 ^ i ||| 2 ^ j →
      (∃ o, op_rxx θ ab = some o ∧ ∀ ψ : State R, MultiOp.apply o ψ = act2 (matRXX (halfPhaseMul θ).re (halfPhaseMul θ).im) (2 ^ i) (2 ^ j) ψ) ∧
      (∃ o, op_ryy θ ab = some o ∧ ∀ ψ : State R, MultiOp.apply o ψ = act2 (matRYY (halfPhaseDiv θ).re (halfPhaseDiv θ).im) (2 ^ i) (2 ^ j) ψ) ∧
      (∃ o, op_rzz θ ab = some o ∧ ∀ ψ : State R, MultiOp.apply o ψ = act2 (matRZZ (halfPhaseDiv θ).re (halfPhaseDiv θ).im) (2 ^ i) (2 ^ j) ψ) ∧
      (∃ o, op_swap (R := R) ab = some o ∧ ∀ ψ : State R, MultiOp.apply o ψ = act2 matSwap (2 ^ i) (2 ^ j) ψ) ∧
      (∃ o, op_i_swap (R := R) ab = some o ∧ ∀ ψ : State R, MultiOp.apply o ψ = act2 matISwap (2 ^ i) (2 ^ j) ψ) ∧
      (∃ o, op_sqrt_swap (R := R) ab = some o ∧ ∀ ψ : State R, MultiOp.apply o ψ = act2 matSqrtSwap (2 ^ i) (2 ^ j) ψ) ∧
      (∃ o, op_sqrt_i_swap (R := R) ab = some o ∧ ∀ ψ : State R, MultiOp.apply o ψ = act2 matSqrtISwap (2 ^ i) (2 ^ j) ψ)) := by
  rw [op_rxx_eq, op_ryy_eq, op_rzz_eq, op_swap_eq, op_i_swap_eq, op_sqrt_swap_eq, op_sqrt_i_swap_eq]
  constructor
  · intro hp
    simp [Op.rxx, Op.ryy, Op.rzz, Op.swap, Op.iSwap, Op.sqrtSwap, Op.sqrtISwap, Op.ofChecked, SingleOp.checked,
      Atom.isValid, hp]
  · intro i j hij hab
    subst hab
    have hp : popcount (2 ^ i ||| 2 ^ j) = 2 := KBits.popcount_two_pow_or hij
    have k := fun ψ : State R => C01_two_qubit_kernels i j hij (halfPhaseMul θ) ψ
    have kd := fun ψ : State R => C01_two_qubit_kernels i j hij (halfPhaseDiv θ) ψ
    refine ⟨⟨[SingleOp.ofAtom (.rxx _ (halfPhaseMul θ))], ?_, fun ψ => (single_apply' _ ψ).trans (funext fun idx => (k ψ idx).1)⟩,
      ⟨[SingleOp.ofAtom (.ryy _ (halfPhaseDiv θ))], ?_, fun ψ => (single_apply' _ ψ).trans (funext fun idx => (kd ψ idx).2.1)⟩,
      ⟨[SingleOp.ofAtom (.rzz _ (halfPhaseDiv θ))], ?_, fun ψ => (single_apply' _ ψ).trans (funext fun idx => (kd ψ idx).2.2.1)⟩,
      ⟨[SingleOp.ofAtom (.swap _)], ?_, fun ψ => (single_apply' _ ψ).trans (funext fun idx => (k ψ idx).2.2.2.1)⟩,
      ⟨[SingleOp.ofAtom (.iSwap _ false)], ?_, fun ψ => (single_apply' _ ψ).trans (funext fun idx => (k ψ idx).2.2.2.2.1)⟩,
      ⟨[SingleOp.ofAtom (.sqrtSwap _ false)], ?_, fun ψ => (single_apply' _ ψ).trans (funext fun idx => (k ψ idx).2.2.2.2.2.1)⟩,
      ⟨[SingleOp.ofAtom (.sqrtISwap _ false)], ?_, fun ψ => (single_apply' _ ψ).trans (funext fun idx => (k ψ idx).2.2.2.2.2.2)⟩⟩ <;>
    simp [Op.rxx, Op.ryy, Op.rzz, Op.swap, Op.iSwap, Op.sqrtSwap, Op.sqrtISwap, Op.ofChecked, SingleOp.checked,
      Atom.isValid, hp, MultiOp.ofSingle, SingleOp.isId, SingleOp.ofAtom]

/-- **`op::h` as translated** (the pairing loop of `multi/h.rs`): never refuses a 64-bit mask and acts as `H` on each
selected qubit -/
theorem C01_code_h (hs : 2 * (Consts.invSqrt2 : R) * Consts.invSqrt2 = 1) (hh : 2 * (Consts.half : R) = 1) (m : Nat)
    (hm : m < 2 ^ 64) :
    ∃ o : MultiOp R, op_h m = some o ∧ MultiOp.actOn o = m ∧ ∀ ψ : State R, MultiOp.apply o ψ = actAll (onEach matH m) ψ := by
  rw [op_h_eq]; exact C01_h hs hh m hm

/-- **`op::u3` as translated**: on one qubit `RZ(λ)`, then `RY(θ)`, then `RZ(φ)`; nothing on any other mask -/
theorem C01_code_u3 (the phi lam : R) (a : Nat) :
    (popcount a = 1 → ∃ o : MultiOp R, op_u3 the phi lam a = some o ∧ ∀ ψ : State R,
      o.apply ψ = act1 (matRZ (halfPhaseDiv phi).re (halfPhaseDiv phi).im) a
        (act1 (matRY (halfPhaseDiv the).re (halfPhaseDiv the).im) a
          (act1 (matRZ (halfPhaseDiv lam).re (halfPhaseDiv lam).im) a ψ))) ∧
    (popcount a ≠ 1 → op_u3 the phi lam a = none) := by
  rw [op_u3_eq]; exact C01_u3 _ _ _ a

end ctors
end Qvnt

namespace Qvnt
open Qvnt.Spec Qvnt.Gen2

section matrix
variable {R : Type} [CommRing R] [Consts R] [Div R] [LE R] [DecidableLE R] [LT R] [DecidableLT R] [HasSqrt R] [RegConsts R]

/-- **the matrix an operator reports for itself is the linear map it performs** (`Applicable::matrix` as translated, rows
built one basis vector at a time and transposed in place): entry `(i, j)` is amplitude `i` of the image of basis state `j`
under the operator's action on states, for every queue whose gates stay inside the `size` qubits -/
theorem C01_code_matrix (o : MultiOp R) (hc : ∀ g ∈ o, g.ctrl < 2 ^ 64) (size : Nat) (hs : size < 64)
    (hloc : ∀ g ∈ o, ∀ ψ : State R, (∀ i, 2 ^ size ≤ i → ψ i = 0) → ∀ i, 2 ^ size ≤ i → g.apply ψ i = 0)
    (i j : Nat) (hi : i < 2 ^ size) (hj : j < 2 ^ size) :
    ((multi_matrix o size).getD i []).getD j 0 = MultiOp.apply o (fun k => if k = j then 1 else 0) i := by
  rw [multi_matrix_eq o hc size hs, ← C01_matrix_column, ← matrixArr_eq_matrix o size hloc i j hj]
  simp [List.getD_eq_getElem?_getD, hi, hj]

end matrix
end Qvnt
