/-
C10, stated about the interpreter functions as translated from `/repo/src/qasm/int/mod.rs` and `macros.rs` on this run:
register arguments (`get_q_idx_with_context`, `get_c_idx_with_context` with `get_idx_by_alias` underneath),
`process_nodes`, and the expansion of user-defined gates (`Macro::process`).
-/
import Qvnt.Props.C10
import Qvnt.Lemmas.GenInt.int_get_q_idx_eq
import Qvnt.Lemmas.GenInt.int_get_c_idx_eq
import Qvnt.Lemmas.GenInt.int_process_nodes_eq
import Qvnt.Lemmas.GenMacro.macro_process_eq

namespace Qvnt
open Qvnt.Gen2 Interp

section
variable {R : Type}

/-- **`name[i]` as resolved by the translated code is the `i`-th bit of the register's block**, in the quantum list and in
the classical list alike: a register declared as `n` positions after `pre.length` earlier (qu)bits - of the session and of
the chunk being interpreted together - has its `i`-th element at bit `pre.length + i` -/
theorem C10_code_qubit_index (self ch : Interp R) (pre post : List String) (a : String) (n i : Nat) (hi : i < n)
    (hpre : a ∉ pre) (hpost : a ∉ post) :
    (regList self ch true = pre ++ List.replicate n a ++ post → (regList self ch true).length ≤ 64 →
      int_get_q_idx_with_context self ch (.qubit a i) = .ok (2 ^ (pre.length + i))) ∧
    (regList self ch false = pre ++ List.replicate n a ++ post → (regList self ch false).length ≤ 64 →
      int_get_c_idx_with_context self ch (.qubit a i) = .ok (2 ^ (pre.length + i))) := by
  rw [int_get_q_idx_eq, int_get_c_idx_eq]
  exact ⟨fun hs hl => C10_qubit_index self ch true pre post a n i hs hl hpre hpost hi,
    fun hs hl => C10_qubit_index self ch false pre post a n i hs hl hpre hpost hi⟩

/-- two different declared qubits (or classical bits) resolve to different, disjoint bits in the translated code -/
theorem C10_code_disjoint_bits (self ch : Interp R) (a b : String) (i j m1 m2 : Nat)
    (hl : (regList self ch true).length ≤ 64) (hne : a ≠ b ∨ i ≠ j)
    (h1 : int_get_q_idx_with_context self ch (.qubit a i) = .ok m1)
    (h2 : int_get_q_idx_with_context self ch (.qubit b j) = .ok m2) : m1 &&& m2 = 0 ∧ m1 ≠ m2 := by
  rw [int_get_q_idx_eq] at h1 h2
  exact C10_disjoint_bits self ch true a b i j m1 m2 hl hne h1 h2

end

section
variable {R : Type} [Add R] [Sub R] [Mul R] [Neg R] [Div R] [ExprFns R] [AngleFns R] [Zero R] [One R] [Consts R]

/-- **every statement is executed once, in program order, by the translated `process_nodes`**: the queue of an accepted
statement list is the old queue with one step per statement, applied left to right -/
theorem C10_code_once_in_order (self ch ch' : Interp R) (hd : MacrosInv self ch) (ns : List (Node R))
    (h : int_process_nodes self ch ns = .ok ch') :
    ∃ sts : List (Step R), List.Forall₂ stepKind ns sts ∧ ch'.qOps = sts.foldl Step.run ch.qOps := by
  rw [int_process_nodes_eq self ch hd] at h
  have e : processNodes self ch ns = .ok ch' := by
    cases hh : processNodes self ch ns <;> rw [hh] at h <;> simp [Res.toE] at h; rw [h]
  exact C10_once_in_order self ch ch' ns e

/-- **one level of a user-defined gate, as expanded by the translated `Macro::process`**: arity checks, then the body
statements in body order with formal qubits and parameters replaced by the actual ones (`callOne`), concatenated -/
theorem C10_code_macro_subst (macros : List (String × Macro R)) (hnd : KeysNodup macros) (m : Macro R) (name : String)
    (regs : List Nat) (args : List R) :
    macro_process m name regs args macros =
      (if regs.length ≠ m.regs.length then (.err (.wrongRegNumber name regs.length) : Res (MultiOp R))
       else if args.length ≠ m.args.length then .err (.wrongArgNumber name args.length)
       else seqCalls (callOne macros (macros.length + 1) m regs args [name]) m.nodes).toE := by
  rw [macro_process_eq macros hnd, ← C10_macro_subst]
  rfl

end
end Qvnt
