/-
C13, stated about the interpreter entry points as translated from `/repo/src/qasm/int/mod.rs` on this run
(`process_node`, `process_nodes`, `Int::new`; their calls into `macros.rs` are translated as well, those into
`gates.rs` / `parse.rs` go to the model functions tied by `tools/extract.py` / `tools/canon.py`).
-/
import Qvnt.Props.C13
import Qvnt.Lemmas.GenInt.int_process_node_eq
import Qvnt.Lemmas.GenInt.int_process_nodes_eq
import Qvnt.Lemmas.GenInt.int_new_eq

namespace Qvnt
open Qvnt.Gen2 Interp

section
variable {R : Type} [Add R] [Sub R] [Mul R] [Neg R] [Div R] [ExprFns R] [AngleFns R] [Zero R] [One R] [Consts R]

/-- **the verdict of the translated `process_node` on a statement is exactly the static rule it breaks**: the error of the
first rule broken (`nodeErr`, a function of the declared names and the statement only), or acceptance when none is -/
theorem C13_code_statement_decided (self ch : Interp R) (hd : MacrosInv self ch) (n : Node R) (hl : lenOk self ch)
    (hb : builtinOnly self ch n) :
    match nodeErr self ch n with
    | some e => int_process_node self ch n = .error e
    | none => ∃ ch', int_process_node self ch n = .ok ch' := by
  rw [int_process_node_eq self ch hd n]
  have h := C13_statement_decided self ch n hl hb
  cases hn : nodeErr self ch n with
  | some e => rw [hn] at h; simp only [] at h ⊢; rw [h]; rfl
  | none => rw [hn] at h; obtain ⟨ch', hc⟩ := h; exact ⟨ch', by rw [hc]; rfl⟩

/-- **whole programs through the translated `process_nodes`**: refused with the first static rule broken, accepted when
none is -/
theorem C13_code_program_decided (self ch st : Interp R) (hd : MacrosInv self ch) (ns : List (Node R))
    (hl : lenOk self ch) (hs : sameStatic ch st) (hb : progBuiltin self st ns) :
    match progErr self st ns with
    | some e => int_process_nodes self ch ns = .error e
    | none => ∃ ch', int_process_nodes self ch ns = .ok ch' := by
  rw [int_process_nodes_eq self ch hd ns]
  have h := C13_program_decided self ch st ns hl hs hb
  cases hn : progErr self st ns with
  | some e => rw [hn] at h; simp only [] at h ⊢; rw [h]; rfl
  | none => rw [hn] at h; obtain ⟨ch', hc⟩ := h; exact ⟨ch', by rw [hc]; rfl⟩

/-- **the translated `Int::new` refuses an ill-formed program with the first broken rule and accepts a well-formed one** -/
theorem C13_code_new (ast : List (Node R)) (hb : progBuiltin {} {} ast) :
    (∀ e, progErr ({} : Interp R) {} ast = some e → int_new ast = .error e) ∧
    (progErr ({} : Interp R) {} ast = none → ∃ i, int_new ast = .ok i) := by
  rw [int_new_eq]
  refine ⟨fun e h => ?_, fun h => ?_⟩
  · rw [C13_new_rejects ast e hb h]; rfl
  · obtain ⟨i, hi⟩ := C13_new_accepts ast hb h
    exact ⟨i, by rw [hi]; rfl⟩

/-- **the first error wins in the translated `process_nodes`**: once a prefix is refused with a (non-panic) error of the
model, whatever follows is never looked at -/
theorem C13_code_first_error_wins (self ch : Interp R) (hd : MacrosInv self ch) (a b : List (Node R)) (e : IntError)
    (h : processNodes self ch a = .err e) : int_process_nodes self ch (a ++ b) = .error e := by
  rw [int_process_nodes_eq self ch hd, C13_first_error_wins self ch a b e h]; rfl

end
end Qvnt
