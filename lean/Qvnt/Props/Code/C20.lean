/-
C20, stated about the code as translated from `/repo` on this run (`Qvnt.Generated.Regs`), not about the hand-written model:
the property theorems of `Props/C20.lean` transported along the equalities `translated function = model function`
(`Lemmas/GenBits`, `GenVirtl`, `GenCreg`). If a translated function changes its meaning, its equality no longer proves and
these statements fail with it.
-/
import Qvnt.Props.C20
import Qvnt.Lemmas.GenBits.bitsList_eq
import Qvnt.Lemmas.GenVirtl.vreg_new_with_mask_eq
import Qvnt.Lemmas.GenVirtl.quant_get_vreg_by_eq
import Qvnt.Lemmas.GenVirtl.vreg_index_eq
import Qvnt.Lemmas.GenVirtl.vreg_index_by_eq

namespace Qvnt
open Qvnt.Gen2

/-- **`BitsIter` as translated** (`from`, `next` with the wrapping `pos <<= 1`, collected until `None`): for every 64-bit
mask the loop ends within its fuel and the items are exactly the single-bit masks of the set bits, ascending. -/
theorem C20_code_bits (m : Nat) (h : m < 2 ^ 64) : bitsList m = bitsOf m := by
  rw [bitsList_eq]
  exact bitsIterList_eq_bitsOf m h

/-- **`VReg::new_with_mask` as translated** lists exactly the set bits of the mask, ascending -/
theorem C20_code_vreg (m : Nat) (h : m < 2 ^ 64) : (vreg_new_with_mask m).bits = bitsOf m := by
  rw [vreg_new_with_mask_eq]
  exact C20_vreg m h

/-- **`QReg::get_vreg_by` as translated**: a view exists exactly when the mask lies inside the register -/
theorem C20_code_view {R : Type} (r : QReg R) (mask : Nat) (hm : mask < 2 ^ 64) :
    (quant_get_vreg_by (ofModel r) mask).isSome ↔ mask &&& r.qMask = mask := by
  rw [quant_get_vreg_by_eq, Option.isSome_map]
  exact C20_view r mask hm

example : bitsList (2 ^ 63 + 5) = [1, 4, 2 ^ 63] := by rw [C20_code_bits _ (by decide)]; decide

/-- **`VReg` indexing as translated**: `v[i]` on the view of mask `m` is the `i`-th set bit of `m` (0 when out of bounds,
as the Rust `Index` impl returns), and indexing by a predicate returns exactly the union of the selected entries -/
theorem C20_code_index (m : Nat) (h : m < 2 ^ 64) (i : Nat) (f : Nat → Bool) (k : Nat) :
    vreg_index (vregOfModel (VReg.ofMask m)) i = ((bitsOf m)[i]?).getD 0 ∧
    ((vreg_index_by (vregOfModel (VReg.ofMask m)) f).testBit k = true
      ↔ ∃ j b, (VReg.ofMask m).bits[j]? = some b ∧ f j = true ∧ b.testBit k = true) := by
  rw [vreg_index_eq, vreg_index_by_eq, C20_idx m h i]
  exact ⟨rfl, C20_idxBy _ f k⟩

end Qvnt
