/-
C09, stated about the arms of `macro_rules! gate` (`/repo/src/qasm/int/gates.rs`) as expanded and translated on this run:
for every row of the regenerated name table, the translated arm of the row's kind, given the row's constructor, is what the
model's `Gates.process` runs for that name (`runArm`); with the theorems of `Props/C09.lean` about `Gates.process` this
carries "the name means its qelib1 / documented operator" to the macro text.
-/
import Qvnt.Props.C09
import Qvnt.Props.C12
import Qvnt.Lemmas.IntLogic
import Qvnt.Lemmas.GenGates

namespace Qvnt
open Qvnt.Gen2 Qvnt.Generated

section
variable {R : Type} [CommRing R] [Consts R] [Div R] [LE R] [DecidableLE R] [LT R] [DecidableLT R] [HasSqrt R] [RegConsts R]
  [AngleFns R]

/-- the translated arm a table row selects, applied to the row's constructor -/
def armOfRow (name : String) (row : Row) (regs : List Nat) (args : List R) : Except IntError (MultiOp R) :=
  let site := "constructor " ++ row.ctor
  match row.arm with
  | .any => gate_arm_any name site (fun m => ctorApply row.ctor args m) regs args
  | .dgr => gate_arm_dgr name site (fun m => ctorApply row.ctor args m) regs args
  | .two => gate_arm_two name site (fun m => ctorApply row.ctor args m) regs args
  | .r n => gate_arm_r name site (fun a m => ctorApply row.ctor [a] m) n regs args
  | .u1 => gate_arm_u1 name site (fun a m => ctorApply "u1" [a] m) regs args
  | .u2 => gate_arm_u2 name site (fun a b m => ctorApply "u2" [a, b] m) regs args
  | .u3 => gate_arm_u3 name site (fun a b c m => ctorApply "u3" [a, b, c] m) regs args

/-- **every arm of `macro_rules! gate`, as translated, is the model's arm**: the mask is the union of the operands, the
arity tests are the model's (empty union resp. number of distinct qubits, then the number of parameters), the error
values carry the written name and the offending count, the constructor is called with the parameters in written order,
and a constructor that refuses its mask is the panic exit -/
theorem C09_code_arms (name : String) (row : Row) (regs : List Nat) (args : List R) :
    armOfRow name row regs args = (runArm name row regs args).toE := by
  unfold armOfRow
  cases h : row.arm with
  | any => exact gate_arm_any_eq name row h regs args
  | dgr => exact gate_arm_dgr_eq name row h regs args
  | two => exact gate_arm_two_eq name row h regs args
  | r n => exact gate_arm_r_eq name row n h regs args
  | u1 => exact gate_arm_u1_eq name row h regs args
  | u2 => exact gate_arm_u2_eq name row h regs args
  | u3 => exact gate_arm_u3_eq name row h regs args

/-- hence no translated arm takes its panic exit on word-sized operands, for any row of the regenerated table
(`C12_arm_no_panic`): the arity test of each arm is the validity test of the constructor the row is bound to -/
theorem C09_code_arm_no_panic (name : String) (row : Row) (hrow : row ∈ gateTable) (regs : List Nat)
    (hr : ∀ m ∈ regs, m < 2 ^ 64) (args : List R) :
    (∃ o, armOfRow name row regs args = .ok o) ∨
    (∃ e, armOfRow name row regs args = .error e ∧ runArm name row regs args = .err e) := by
  rw [C09_code_arms]
  have h := C12_arm_no_panic name row hrow regs hr args
  cases hh : runArm name row regs args with
  | ok o => exact Or.inl ⟨o, rfl⟩
  | err e => exact Or.inr ⟨e, rfl, rfl⟩
  | panic s => exact absurd hh (h s)

/-- **a plain table name runs its translated arm**: for a name without control prefix that the regenerated table lists
(in either case), what `gates::process` returns (model of the name dispatch, tied by the table and the prefix-arm text)
is what the translated macro arm of the row's kind returns for the row's constructor; a name the table does not list is
`UnknownGate` -/
theorem C09_code_plain (name : String) (regs : List Nat) (args : List R) (hn : isCtl name = false) :
    (Gates.process name regs args).toE =
      match tableRow name with
      | some row => armOfRow name row regs args
      | none => .error (.unknownGate name) := by
  rw [process_plain name regs args hn]
  cases h : tableRow name with
  | some row => simp only []; rw [C09_code_arms]
  | none => rfl

end
end Qvnt
