/-
C06, stated about `QReg::measure_mask` as translated from `/repo` on this run (with `collapse_mask`, `rescale`,
`get_probabilities` underneath), at the real numbers; the drawn basis index is the head of the stream of draws.
-/
import Qvnt.Props.C06
import Qvnt.Lemmas.GenMeas.quant_measure_mask_eq

namespace Qvnt
open Qvnt.Gen2 Qvnt.Gen

/-- **The translated `measure_mask` projects onto the returned outcome.** For every register, mask and drawn index `d`
(with a non-empty effective mask): it consumes exactly that draw; the classical value it returns is `d` restricted to the
measured qubits; every amplitude inconsistent with the draw on a measured qubit is exactly zero afterwards; the consistent
ones are the old ones times one common positive number. -/
theorem C06_code_measure (r : QReg ℝ) (mask d : Nat) (rest : List Nat) (hq : r.qMask = 2 ^ r.qNum - 1) (hn : r.qNum ≤ 64)
    (hne : mask &&& r.qMask ≠ 0) :
    ∃ (c : CRegG) (q : QRegG ℝ), quant_measure_mask (ofModel r) mask (d :: rest) = some (c, q, rest) ∧
      c.value = d &&& (mask &&& r.qMask) ∧
      (∀ i, (i ^^^ d) &&& (mask &&& r.qMask) ≠ 0 → q.psi.getD i 0 = 0) ∧
      ∃ lam : ℝ, 0 < lam ∧ ∀ i, (i ^^^ d) &&& (mask &&& r.qMask) = 0 → q.psi.getD i 0 = (bufFn r.psi i).scale lam := by
  refine ⟨_, _, by rw [quant_measure_mask_eq, if_neg hne], ?_, ?_, ?_⟩
  · exact C06_value r mask d hq hn
  · intro i hi
    have := C06_zero r mask d i hi
    simpa [ofModel, bufFn, Array.getD_eq_getD_getElem?, List.getD_eq_getElem?_getD] using this
  · obtain ⟨lam, hlam, h⟩ := C06_ratio r mask d
    refine ⟨lam, hlam, fun i hi => ?_⟩
    have := h i hi
    simpa [ofModel, bufFn, Array.getD_eq_getD_getElem?, List.getD_eq_getElem?_getD] using this

/-- measuring no qubit of the register (empty effective mask) draws nothing and changes nothing -/
theorem C06_code_empty (r : QReg ℝ) (mask : Nat) (ds : List Nat) (h : mask &&& r.qMask = 0) :
    quant_measure_mask (ofModel r) mask ds = some (cregOfModel (CReg.new r.qNum), ofModel r, ds) := by
  rw [quant_measure_mask_eq, if_pos h]

/-- **measuring the same qubits again with the translated `measure_mask` returns the same classical value**, whichever
index of non-zero amplitude is drawn the second time (both calls consume one draw each) -/
theorem C06_code_repeat (r : QReg ℝ) (mask d d₂ : Nat) (rest : List Nat) (hne : mask &&& r.qMask ≠ 0)
    (hd₂ : bufFn (r.measureMask mask d).1.psi d₂ ≠ 0) :
    ∃ (c : CRegG) (q₁ q₂ : QRegG ℝ),
      quant_measure_mask (ofModel r) mask (d :: d₂ :: rest) = some (c, q₁, d₂ :: rest) ∧
      quant_measure_mask q₁ mask (d₂ :: rest) = some (c, q₂, rest) := by
  have hne' : mask &&& (r.measureMask mask d).1.qMask ≠ 0 := by rw [measure_qMask]; exact hne
  refine ⟨cregOfModel (r.measureMask mask d).2, ofModel (r.measureMask mask d).1,
    ofModel ((r.measureMask mask d).1.measureMask mask d₂).1, by rw [quant_measure_mask_eq, if_neg hne], ?_⟩
  rw [quant_measure_mask_eq, if_neg hne']
  show some (cregOfModel ((r.measureMask mask d).1.measureMask mask d₂).2, _, rest) = _
  rw [C06_repeat r mask d d₂ hd₂]

end Qvnt
