/-
C15, stated about `op::qft` / `op::qft_swapped` as translated from `/repo/src/operator/multi/qft.rs` and `mod.rs` on this
run. The translated constructors compute their rotation angles as `PI * 0.5f64.powi(j)` and hand `rz::Op::new` the angle,
which halves it (`phase / 2.`) and takes `cos`, `sin`: over the reals, with `Trig ℝ = ⟨2, cos, sin⟩` and
`AngleConsts ℝ = ⟨π/2, π⟩`, that is the phase table `phaseOfR j = cis (π / 2^(j+1))` of the property theorems.
-/
import Qvnt.Props.C15
import Qvnt.Lemmas.GenQft.op_qft_eq
import Qvnt.Lemmas.GenQft.op_qft_swapped_eq

namespace Qvnt
open Qvnt.Spec Qvnt.Gen2

/-- the real-number reading of the `f64` operations the constructors use -/
noncomputable instance instTrigReal : Trig ℝ := ⟨2, Real.cos, Real.sin⟩
noncomputable instance instAngleConstsReal : Rs.AngleConsts ℝ := ⟨Real.pi / 2, Real.pi⟩

theorem powi_half (j : Nat) : Rs.powi (Consts.half : ℝ) j = (1 / 2) ^ j := by
  induction j with
  | zero => rfl
  | succ n ih => rw [Rs.powi, ih, pow_succ]; rfl

/-- **the phase table computed by the translated code is the one the DFT theorems use** -/
theorem genPhase_real (j : Nat) : (genPhase j : Cx ℝ) = phaseOfR j := by
  unfold genPhase halfPhaseDiv phaseOfR cis
  rw [powi_half]
  have h : (Rs.AngleConsts.pi : ℝ) * (1 / 2) ^ j / Trig.two = Real.pi / 2 ^ (j + 1) := by
    show Real.pi * (1 / 2) ^ j / 2 = Real.pi / 2 ^ (j + 1)
    rw [pow_succ, one_div, inv_pow]
    field_simp
  show (⟨Real.cos _, Real.sin _⟩ : Cx ℝ) = _
  rw [h]

/-- **`op::qft(mask)` as translated** never refuses a 64-bit mask and applies as `lam ·` DFT ∘ (reversal of the selected
qubits) on the selected sub-register, identity elsewhere, `|lam| = 1` -/
theorem C15_code_qft (m : Nat) (hm : m < 2 ^ 64) :
    ∃ o : MultiOp ℝ, op_qft m = some o ∧ ∃ lam : Cx ℝ, lam.normSq = 1 ∧ ∀ (ψ : State ℝ) (idx : Nat),
      MultiOp.apply o ψ idx
        = lam * dftAct (rootR (2 ^ (bitsOf m).length)) (1 / Real.sqrt (2 ^ (bitsOf m).length))
            (bitsOf m) (reverseSel (bitsOf m) ψ) idx := by
  have hp : (genPhase : Nat → Cx ℝ) = phaseOfR := funext genPhase_real
  rw [op_qft_eq, hp]
  obtain ⟨o, ho⟩ := qft_isSome m hm phaseOfR
  exact ⟨o, ho, C15_qft m hm o ho⟩

/-- **`op::qft_swapped(mask)` as translated** never refuses a 64-bit mask and is the DFT matrix on the selected
sub-register (lowest selected bit least significant), identity elsewhere, up to one global phase -/
theorem C15_code_qft_swapped (m : Nat) (hm : m < 2 ^ 64) :
    ∃ o : MultiOp ℝ, op_qft_swapped m = some o ∧ ∃ lam : Cx ℝ, lam.normSq = 1 ∧ ∀ (ψ : State ℝ) (idx : Nat),
      MultiOp.apply o ψ idx
        = lam * dftAct (rootR (2 ^ (bitsOf m).length)) (1 / Real.sqrt (2 ^ (bitsOf m).length)) (bitsOf m) ψ idx := by
  have hp : (genPhase : Nat → Cx ℝ) = phaseOfR := funext genPhase_real
  rw [op_qft_swapped_eq, hp]
  obtain ⟨o, ho⟩ := qftSwapped_isSome m hm phaseOfR
  exact ⟨o, ho, C15_qft_swapped m hm o ho⟩

/-- **translated `qft` followed by its translated dagger is the identity**, both orders -/
theorem C15_code_inverse (m : Nat) (hm : m < 2 ^ 64) (o : MultiOp ℝ) (ho : op_qft m = some o) (ψ : State ℝ) :
    (MultiOp.dgr o).apply (o.apply ψ) = ψ ∧ o.apply ((MultiOp.dgr o).apply ψ) = ψ := by
  have hp : (genPhase : Nat → Cx ℝ) = phaseOfR := funext genPhase_real
  rw [op_qft_eq, hp] at ho
  exact C15_inverse m hm o ho ψ

end Qvnt
