/-
C16, stated about `QReg::sample_all` as translated from `/repo` on this run (Gaussian proposal with the standard-normal draws
as an input list, deficit distribution, surplus walk), with the fuel the translation of its open-ended loop is given.
-/
import Qvnt.Props.C16
import Qvnt.Lemmas.GenSample.quant_sample_all_eq

namespace Qvnt
open Qvnt.Gen2

section
variable {R : Type} [Add R] [Sub R] [Mul R] [Div R] [Neg R] [Zero R] [One R] [Consts R]
  [LE R] [DecidableLE R] [LT R] [DecidableLT R] [HasSqrt R] [RegConsts R] [QReg.HasRound R]

/-- **The translated `sample_all`**: for every register (any size below 64 qubits, also 0, 1, 2), every shot count and
every list of draws it returns a histogram (its surplus walk ends within the stated fuel and nothing indexes out of
bounds) of exactly `2^n` cells, which sum to exactly `count` as soon as some outcome is possible. -/
theorem C16_code_sample (r : QReg R) (count : Nat) (g : List R) (hq : r.qMask = 2 ^ r.qNum - 1) (hn : r.qNum < 64)
    (hs : 2 ^ r.qNum ≤ r.psi.size) (hg : 2 ^ r.qNum ≤ g.length) :
    ∃ hist, quant_sample_all
        (((QReg.sampleProposal r.getProbabilities count g).sum - count) *
          ((QReg.sampleProposal r.getProbabilities count g).length + 1) +
          (QReg.sampleProposal r.getProbabilities count g).length + 1 + 1) (ofModel r) count g = some hist ∧
      hist.length = 2 ^ r.qNum ∧ ((∃ x ∈ r.getProbabilities, 0 < x) → hist.sum = count) := by
  have hm : r.qMask < 2 ^ r.qNum := by
    rw [hq]; exact Nat.sub_lt (Nat.pow_pos (by decide)) (by decide)
  rw [quant_sample_all_eq r count g hn hs hm hg]
  obtain ⟨hist, h, hlen⟩ := C16_len r count g hq hg
  exact ⟨hist, h, hlen, fun hpos => C16_total r count g hq hg hpos hist h⟩

/-- **no shots on an impossible outcome, for the translated `sample_all`**: a basis state whose reported probability is
exactly 0 gets the cell 0 (under the same two facts about the scalar arithmetic as `C16_zero`) -/
theorem C16_code_zero (r : QReg R) (count : Nat) (g : List R) (hq : r.qMask = 2 ^ r.qNum - 1) (hn : r.qNum < 64)
    (hs : 2 ^ r.qNum ≤ r.psi.size) (hg : 2 ^ r.qNum ≤ g.length) (hlt : ¬ (0 : R) < 0)
    (hround : ∀ c cs s x : R, QReg.HasRound.roundInt (c * 0 + cs * (HasSqrt.sqrt 0 * x - s * 0)) ≤ 0)
    (fuel : Nat) (hist : List Nat)
    (hf : fuel = ((QReg.sampleProposal r.getProbabilities count g).sum - count) *
          ((QReg.sampleProposal r.getProbabilities count g).length + 1) +
          (QReg.sampleProposal r.getProbabilities count g).length + 1 + 1)
    (h : quant_sample_all fuel (ofModel r) count g = some hist) :
    ∀ i : Nat, r.getProbabilities[i]? = some 0 → hist[i]? = some 0 := by
  have hm : r.qMask < 2 ^ r.qNum := by
    rw [hq]; exact Nat.sub_lt (Nat.pow_pos (by decide)) (by decide)
  subst hf
  rw [quant_sample_all_eq r count g hn hs hm hg] at h
  exact C16_zero r count g hq hg hlt hround hist h

end
end Qvnt
