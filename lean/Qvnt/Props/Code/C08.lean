/-
C08, stated about the code as translated on this run. Two facts carry the property over to the source:
(1) every place where the source branches on the threading model (`match self.th { Single => .., Multi(n) => .. }`, and
`for_each` / `for_each_par` of the gate dispatch) has a parallel arm that is the sequential arm with rayon's adaptors - the
translators check this arm by arm and record the result in `Gen2.parTwins` / `Gen.forEachTwins`; the parallel sweep then
computes each cell by the same function of the input buffer as the sequential one, and `C08_fill` says that any schedule
covering the cells produces the sequential buffer; (2) the threading model itself (`num_threads`, `Model::and`).
-/
import Qvnt.Props.C08
import Qvnt.Lemmas.GenTwins
import Qvnt.Lemmas.GenThreads
import Qvnt.Lemmas.GenCore.forEachPar_eq
import Qvnt.Lemmas.GenCore.forEachTwins_true

namespace Qvnt
open Qvnt.Gen2 Qvnt.Pool

/-- **every threading `match` of the translated register code has a rayon twin as its parallel arm**, and there is at least
one such place per parallelised operation (the list is not empty: a source without any `Multi` arm would make the
statement vacuous) -/
theorem C08_code_twins :
    parTwins.all (fun p => p.2) = true ∧ Gen.forEachTwins = true ∧
    ["quant_get_absolute", "quant_get_probabilities", "quant_collapse_mask", "quant_rescale", "quant_apply"].all
      (fun n => parTwins.any (fun p => p.1 == n)) = true := by
  refine ⟨parTwins_all, Gen.forEachTwins_true, by decide⟩

/-- **the parallel gate sweep computes every cell by the sequential cell function** (`for_each_par` vs `for_each` of
`dispatch.rs` as translated), so by `C08_fill` every covering schedule of it yields the sequential buffer -/
theorem C08_code_sweep {R : Type} [Zero R] (op : State R → Nat → Cx R) (ψ : State R) (ctrl n : Nat) (σ : List Nat)
    (hσ : σ.Perm (List.range n)) (out : Array (Cx R)) (hs : out.size = n) :
    fillSched (Gen.forEachPar op ψ ctrl) σ out = Array.ofFn (n := n) (fun i => Gen.forEach op ψ ctrl i.val) := by
  rw [C08_fill _ n σ hσ out hs]
  rfl

/-- **`num_threads(k)` as translated** accepts exactly `1 ≤ k ≤ available`; 1 is `Single`, more is `Multi(k)` -/
theorem C08_code_threads (k avail : Nat) :
    ((quant_num_threads k avail).isSome ↔ 0 < k ∧ k ≤ avail) ∧
    (1 ≤ avail → quant_num_threads 1 avail = some .single) ∧
    (1 < k → k ≤ avail → quant_num_threads k avail = some (.multi k)) := by
  refine ⟨?_, fun ha => ?_, fun hk ha => ?_⟩
  · rw [← C08_threads, ← quant_num_threads_eq, Option.isSome_map]
  · have h := quant_num_threads_eq 1 avail
    rw [C08_threads_single avail ha] at h
    cases hq : quant_num_threads 1 avail with
    | none => rw [hq] at h; simp at h
    | some t =>
      rw [hq] at h
      cases t with
      | single => rfl
      | multi n =>
        unfold quant_num_threads at hq
        have : ¬ 1 > avail := by omega
        simp [this] at hq
  · unfold quant_num_threads
    have h0 : ¬ (0 = k) := by omega
    have h1 : ¬ k > avail := by omega
    have h2 : ¬ k = 1 := by omega
    simp [h0, h1, h2]

/-- **combining registers (`Model::and` as translated)** does not depend on the order or the grouping, `Single` is
neutral (on the encoding `Single = 0`, `Multi(n) = n`) -/
theorem C08_code_and (a b c : ThG) :
    (th_and a b).enc = (th_and b a).enc ∧ (th_and (th_and a b) c).enc = (th_and a (th_and b c)).enc ∧
    (th_and .single a).enc = a.enc ∧ (th_and a .single).enc = a.enc := by
  simp only [th_and_eq]
  exact ⟨C08_and_comm _ _, C08_and_assoc _ _ _, (C08_and_single _).1, (C08_and_single _).2⟩

end Qvnt
