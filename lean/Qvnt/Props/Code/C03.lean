/-
C03, stated about `SingleOp` / `MultiOp` methods as translated from `/repo` on this run (`apply` with its buffer
ping-pong, `*=`, `dgr`, `c`).
-/
import Qvnt.Props.C03
import Qvnt.Lemmas.GenOps.multi_dgr_eq
import Qvnt.Lemmas.GenOps.multi_mul_assign_eq

namespace Qvnt
open Qvnt.Gen2

section
variable {R : Type} [CommRing R] [Consts R] [Div R] [LE R] [DecidableLE R] [LT R] [DecidableLT R] [HasSqrt R] [RegConsts R]

/-- **the translated `dgr`** reverses the queue and daggers every element; twice is the identity, and the dagger of a
product is the product of the daggers in reverse order -/
theorem C03_code_dgr (x y : MultiOp R) :
    multi_dgr (multi_dgr x) = x ∧ multi_dgr (multi_mul_assign x y) = multi_mul_assign (multi_dgr y) (multi_dgr x) := by
  simp only [multi_dgr_eq, multi_mul_assign_eq]
  exact ⟨Qvnt.MultiOp.dgr_dgr (fun r => neg_neg r) x, Qvnt.MultiOp.dgr_mul x y⟩

/-- **the translated dagger is the inverse**: for every operator built by a construction program over 64-bit masks with
unit-circle phases, applying the operator and then what the translated `dgr` returns (and the other way round) gives the
state back; the same for the product built with the translated `*=` of the two -/
theorem C03_code_inverse (hs : 2 * (Consts.invSqrt2 : R) * Consts.invSqrt2 = 1) (hh : 2 * (Consts.half : R) = 1)
    (phaseOf : QftPhases R) (hp : ∀ j, Cx.IsUnitPhase (phaseOf j)) (e : OpExpr R) (hw : e.WordOK) (hu : e.UnitPhases)
    (o : MultiOp R) (hb : OpExpr.build phaseOf e = .ok o) (ψ : State R) :
    MultiOp.apply (multi_dgr o) (MultiOp.apply o ψ) = ψ ∧ MultiOp.apply o (MultiOp.apply (multi_dgr o) ψ) = ψ := by
  rw [multi_dgr_eq]
  exact C03_inverse hs hh phaseOf hp e hw hu o hb ψ

end
end Qvnt
