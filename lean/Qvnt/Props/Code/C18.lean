/-
C18 (and the incremental part of C17), stated about `add_ast` as translated from `/repo` on this run.

A `Result`-returning translation returns the updated `&mut` values on `Ok` only; that this is the right reading of
`add_ast(&mut self, ..)` on `Err` - the session is what it was - is the flag `int_add_ast_err_keeps_self`, which the
translator computes from the statement list (nothing touches `self` before a `?` / `return Err`, and the value of the function
is not computed after `self` was replaced).
-/
import Qvnt.Props.C18
import Qvnt.Lemmas.GenInt.int_add_ast_eq
import Qvnt.Lemmas.GenInt.int_new_eq

namespace Qvnt
open Qvnt.Gen2 Interp

section
variable {R : Type} [Add R] [Sub R] [Mul R] [Neg R] [Div R] [ExprFns R] [AngleFns R] [Zero R] [One R] [Consts R]

/-- no error exit of the translated `add_ast` comes after a statement that touches the session -/
theorem C18_code_error_exits_first : int_add_ast_err_keeps_self = true := by decide

/-- **`add_ast` as translated is the model's `add_ast`**, for every session with unique gate names and every chunk: it is
refused exactly when the model refuses, with the same error, and accepted with the same new session. Hence (C18_rollback,
C18_continue) a refused chunk changes nothing and a later chunk is interpreted as if it had never been offered. -/
theorem C18_code_add_ast (s : Interp R) (hs : KeysNodup s.macros) (c : List (Node R)) :
    (∀ e, int_add_ast s c = .error e → s.addAst c = .err e ∨ ∃ p, s.addAst c = .panic p) ∧
    (∀ s', int_add_ast s c = .ok s' ↔ s.addAst c = .ok s') := by
  rw [int_add_ast_eq s hs c]
  cases h : s.addAst c with
  | ok s1 => simp [Res.toE]
  | err e1 => simp [Res.toE]
  | panic p => simp [Res.toE]

/-- the translated `Int::new` accepts exactly what the model accepts, with the same interpreter -/
theorem C18_code_new (ast : List (Node R)) (i : Interp R) :
    int_new ast = .ok i ↔ (Interp.new ast : Res (Interp R)) = .ok i := by
  rw [int_new_eq]
  cases (Interp.new ast : Res (Interp R)) <;> simp [Res.toE]

end
end Qvnt
