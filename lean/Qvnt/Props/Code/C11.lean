/-
C11 / C10, stated about the pipeline as translated from `/repo` on this run: `Int::new` (all of `qasm/int/mod.rs` and
`macros.rs`), `Sym::new`, `Sym::finish` (`qasm/sym.rs`, with `measure_mask` / `reset_by_mask` / `apply` of `quant.rs`).
`Props/C11.lean` proves the model's pipeline equal to the statement-by-statement reference semantics; the equalities
`translated = model` carry that over to the translated functions.
-/
import Qvnt.Props.C11
import Qvnt.Lemmas.GenInt.int_new_eq
import Qvnt.Lemmas.GenSym.sym_new_eq
import Qvnt.Lemmas.GenSym.sym_finish_eq

namespace Qvnt
open Qvnt.Gen2 Interp Spec

section
variable {R : Type} [CommRing R] [Consts R] [Div R] [LE R] [DecidableLE R] [LT R] [DecidableLT R] [HasSqrt R] [RegConsts R]
  [ExprFns R] [AngleFns R]

/-- what a finished run of the translated runner leaves, read back as model values -/
def finalG (r : SymG R × List Nat) : List (Cx R) × Nat × Nat × List Nat :=
  (r.1.q_reg.psi, r.1.c_reg.value, r.1.c_reg.q_num, r.2)

/-- **The translated pipeline runs programs as the reference semantics does.** For every program the translated `Int::new`
accepts (register sizes positive, fewer than 64 qubits, control masks that are machine words), for every stream of
measurement outcomes: the translated `Sym::finish` on the translated `Sym::new` ends with the amplitudes, the classical
value and the unused outcomes of the statement-by-statement reference execution `Spec.refRun`, or both run out of
outcomes (`i.mOp` is the measurement mode the interpreter carries: `Set` unless `xor()` was called). -/
theorem C11_code_refine (p : List (Node R)) (i : Interp R) (drawn : List Nat)
    (hacc : int_new p = .ok i) (hpos : ∀ n ∈ p, PosDecl n) (hq : i.qReg.length < 64)
    (hw : WordQueue (Sym.new i).qOps) (hc : (Sym.new i).cReg.qMask < 2 ^ 64) :
    (sym_finish (sym_new i) drawn).map finalG =
      (refRun p i.mOp drawn).map (fun st => let f := RefState.final st; (f.1.psi.toList, f.2.1.value, f.2.1.qNum, f.2.2)) := by
  have hacc' : (Interp.new p : Res (Interp R)) = .ok i := by
    have := int_new_eq (R := R) p
    rw [hacc] at this
    cases h : (Interp.new p : Res (Interp R)) with
    | ok j => rw [h] at this; simp only [Res.toE, Except.ok.injEq] at this; rw [this]
    | err e => rw [h] at this; simp [Res.toE] at this
    | panic s => rw [h] at this; simp [Res.toE] at this
  have href := C11_refine_partial p i i.mOp drawn hacc' hpos
  have hi : ({ i with mOp := i.mOp } : Interp R) = i := rfl
  rw [hi] at href
  rw [sym_new_eq i hq, sym_finish_eq (Sym.new i) drawn hw hc, Option.map_map]
  have hcomp : (refRun p i.mOp drawn).map (fun st => let f := RefState.final st; (f.1.psi.toList, f.2.1.value, f.2.1.qNum, f.2.2)) =
      ((refRun p i.mOp drawn).map RefState.final).map (fun f => (f.1.psi.toList, f.2.1.value, f.2.1.qNum, f.2.2)) := by
    rw [Option.map_map]; rfl
  rw [hcomp, ← href, Option.map_map]
  rfl
end
end Qvnt
