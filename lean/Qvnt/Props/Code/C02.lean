/-
C02, stated about `SingleOp` / `MultiOp` methods as translated from `/repo` on this run (`apply` with its buffer
ping-pong, `*=`, `dgr`, `c`).
-/
import Qvnt.Props.C02
import Qvnt.Lemmas.GenOps.multi_c_eq

namespace Qvnt
open Qvnt.Gen2

section
variable {R : Type} [CommRing R] [Consts R] [Div R] [LE R] [DecidableLE R] [LT R] [DecidableLT R] [HasSqrt R] [RegConsts R]

/-- **the translated `c`** never panics, and refuses exactly when the control mask meets a qubit the product acts on or
is controlled by -/
theorem C02_code_refuse (o : MultiOp R) (m : Nat) :
    ∃ r, multi_c o m = some r ∧ (r.isSome ↔ MultiOp.actOn o &&& m = 0) := by
  rcases multi_c_eq o m with h | ⟨h1, h2⟩
  · exact ⟨_, h, C02_refuse o m⟩
  · -- the inner `unwrap` cannot fail when the masks are disjoint
    have := (C02_refuse o m).2 h2
    rw [h1] at this; simp at this

end
end Qvnt
