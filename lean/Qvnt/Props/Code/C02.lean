/-
C02, stated about `SingleOp` / `MultiOp` methods as translated from `/repo` on this run (`apply` with its buffer
ping-pong, `*=`, `dgr`, `c`).
-/
import Qvnt.Props.C02
import Qvnt.Lemmas.GenOps.multi_c_eq

namespace Qvnt
open Qvnt.Gen2

section
variable {R : Type} [CommRing R] [Consts R] [Div R] [LE R] [DecidableLE R] [LT R] [DecidableLT R] [HasSqrt R] [RegConsts R]

/-- **the translated `c`** never panics, and refuses exactly when the control mask meets a qubit the product acts on or
is controlled by -/
theorem C02_code_refuse (o : MultiOp R) (m : Nat) :
    ∃ r, multi_c o m = some r ∧ (r.isSome ↔ MultiOp.actOn o &&& m = 0) := by
  rcases multi_c_eq o m with h | ⟨h1, h2⟩
  · exact ⟨_, h, C02_refuse o m⟩
  · -- the inner `unwrap` cannot fail when the masks are disjoint
    have := (C02_refuse o m).2 h2
    rw [h1] at this; simp at this

/-- **what the translated `c` returns acts only where all control bits are 1**: for every operator built by a construction
program over 64-bit masks, the operator `c(m)` returns is the original one on the amplitudes whose bits under `m` are all
set, and leaves every other amplitude untouched -/
theorem C02_code_block (hs : 2 * (Consts.invSqrt2 : R) * Consts.invSqrt2 = 1) (hh : 2 * (Consts.half : R) = 1)
    (phaseOf : QftPhases R) (e : OpExpr R) (hw : e.WordOK) (o : MultiOp R) (hb : OpExpr.build phaseOf e = .ok o)
    (m : Nat) (o' : MultiOp R) (hc : multi_c o m = some (some o')) (ψ : State R) (idx : Nat) :
    MultiOp.apply o' ψ idx = if idx &&& m = m then MultiOp.apply o ψ idx else ψ idx := by
  rcases multi_c_eq o m with h | ⟨h1, h2⟩
  · rw [h] at hc
    have hc' : MultiOp.c o m = some o' := Option.some.inj hc
    exact C02_block_idx hs hh phaseOf e hw o hb m o' hc' ψ idx
  · have := (C02_refuse o m).2 h2
    rw [h1] at this; simp at this

end
end Qvnt
