/-
C12, stated about `add_ast` / `Int::new` as translated from `/repo/src/qasm/int/mod.rs` (and `macros.rs`) on this run.
In the translation every `unwrap` / `expect` / slice or map index of the source is an explicit exit with the error value
`Interp.panicErr site` (= `UnknownGate("<panic> " ++ site)`; a gate name cannot start with `<`), so "the call returns a
session or an error, never a panic" is the statement that this value is never returned.
-/
import Qvnt.Props.C12
import Qvnt.Lemmas.GenInt.int_add_ast_eq
import Qvnt.Lemmas.GenInt.int_new_eq
import Qvnt.Lemmas.GenSym.sym_new_eq
import Qvnt.Lemmas.GenSym.sym_finish_eq

namespace Qvnt
open Qvnt.Gen2 Interp

section
variable {R : Type} [Add R] [Sub R] [Mul R] [Neg R] [Div R] [ExprFns R] [AngleFns R]

/-- the gate-name invariant the translated `HashMap` operations rely on is kept by every accepted statement list -/
theorem processNodes_macrosInv (s c c' : Interp R) (ns : List (Node R)) (hd : MacrosInv s c)
    (h : processNodes s c ns = .ok c') : MacrosInv s c' := by
  induction ns generalizing c with
  | nil => simp only [processNodes] at h; cases h; exact hd
  | cons n ns ih =>
    simp only [processNodes] at h
    cases hn : processNode s c n with
    | ok ch => rw [hn] at h; exact ih ch (processNode_inv s c ch n hd hn) h
    | err e => rw [hn] at h; cases h
    | panic p => rw [hn] at h; cases h

/-- an accepted chunk leaves a session without duplicate gate names -/
theorem addAst_keysNodup (s s' : Interp R) (hs : KeysNodup s.macros) (ast : List (Node R))
    (h : addAst s ast = .ok s') : KeysNodup s'.macros := by
  unfold addAst astChanges at h
  cases hp : processNodes s {} ast with
  | ok ch =>
    rw [hp] at h
    simp only [Res.ok.injEq] at h
    have hi := processNodes_macrosInv s {} ch ast (macrosInv_empty s hs) hp
    have hm : s'.macros = s.macros ++ ch.macros := by
      rw [← h]
      show (s.macros.filter (fun p => !(ch.macros.any (·.1 == p.1)))) ++ ch.macros = _
      have := mapExtend_disjoint hi.disjoint
      unfold Rs.mapExtend at this
      exact this
    rw [hm]; exact hi
  | err e => rw [hp] at h; cases h
  | panic p => rw [hp] at h; cases h

/-- every state of a session has unique gate names -/
theorem session_keysNodup (s : Interp R) (hs : KeysNodup s.macros) (chunks : List (List (Node R))) :
    KeysNodup (session s chunks).macros := by
  induction chunks generalizing s with
  | nil => exact hs
  | cons c cs ih =>
    simp only [session]
    cases h : addAst s c with
    | ok s' => exact ih s' (addAst_keysNodup s s' hs c h)
    | err e => exact ih s hs
    | panic p => exact ih s hs

variable [Zero R] [One R] [Consts R]

/-- **the translated `add_ast` never takes a panic exit, in any state of a session**: it returns a session or an error
value of the model (hence not `panicErr site` for any `site`: those arise only from `.panic`) -/
theorem C12_code_session_total (chunks : List (List (Node R))) (nodes : List (Node R)) :
    (∃ i, int_add_ast (session ({} : Interp R) chunks) nodes = .ok i ∧
        addAst (session ({} : Interp R) chunks) nodes = .ok i) ∨
    (∃ e, int_add_ast (session ({} : Interp R) chunks) nodes = .error e ∧
        addAst (session ({} : Interp R) chunks) nodes = .err e) := by
  have hk : KeysNodup (session ({} : Interp R) chunks).macros :=
    session_keysNodup _ (show KeysNodup ([] : List (String × Macro R)) from List.nodup_nil) chunks
  rw [int_add_ast_eq _ hk]
  rcases C12_session_total chunks nodes with ⟨i, hi⟩ | ⟨e, he⟩
  · exact Or.inl ⟨i, by rw [hi]; rfl, hi⟩
  · exact Or.inr ⟨e, by rw [he]; rfl, he⟩

/-- **the translated `Int::new` is total**: an interpreter or an error value of the model, for every AST -/
theorem C12_code_new_total (nodes : List (Node R)) :
    (∃ i, int_new nodes = .ok i) ∨ (∃ e, int_new nodes = .error e ∧ Interp.new nodes = .err e) := by
  rw [int_new_eq]
  rcases C12_new_total nodes with ⟨i, hi⟩ | ⟨e, he⟩
  · exact Or.inl ⟨i, by rw [hi]; rfl⟩
  · exact Or.inr ⟨e, by rw [he]; rfl, he⟩

end
section run
variable {R : Type} [CommRing R] [Consts R] [Div R] [LE R] [DecidableLE R] [LT R] [DecidableLT R] [HasSqrt R] [RegConsts R]

/-- **the translated runner runs an accepted program to completion**: `Sym::new` then `Sym::finish` as translated return
a value for every outcome stream that is at least as long as the number of draws the queue asks for -/
theorem C12_code_run_total (i : Interp R) (drawn : List Nat) (hq : i.qReg.length < 64)
    (hw : WordQueue (Sym.new i).qOps) (hc : (Sym.new i).cReg.qMask < 2 ^ 64)
    (h : i.qOps.drawCount ≤ drawn.length) : (sym_finish (sym_new i) drawn).isSome = true := by
  rw [sym_new_eq i hq, sym_finish_eq (Sym.new i) drawn hw hc, Option.isSome_map]
  exact C12_run_total i drawn h

end run

end Qvnt
