/-
C04, stated about `SingleOp` / `MultiOp` methods as translated from `/repo` on this run (`apply` with its buffer
ping-pong, `*=`, `dgr`, `c`).
-/
import Qvnt.Props.C04
import Qvnt.Lemmas.GenOps.multi_apply_eq
import Qvnt.Lemmas.GenOps.multi_mul_assign_eq
import Qvnt.Lemmas.GenOps.quant_apply_eq

namespace Qvnt
open Qvnt.Gen2

section
variable {R : Type} [CommRing R] [Consts R] [Div R] [LE R] [DecidableLE R] [LT R] [DecidableLT R] [HasSqrt R] [RegConsts R]

/-- **`MultiOp::apply` as translated** (two buffers swapped after every element, final swap): what is left in the
output buffer is the left fold of the per-element sweeps, whatever the scratch buffer held -/
theorem C04_code_apply (o : MultiOp R) (hc : ∀ g ∈ o, g.ctrl < 2 ^ 64) (a : Array (Cx R)) (out : List (Cx R))
    (ho : out.length = a.size) :
    multi_apply o a.toList out = (o.foldl (fun b g => g.applyArr b) a).toList :=
  multi_apply_eq o hc a out ho

/-- **a product built with the translated `*=`** applies as its left factor, then its right factor -/
theorem C04_code_mul (x y : MultiOp R) (hx : ∀ g ∈ x, g.ctrl < 2 ^ 64) (hy : ∀ g ∈ y, g.ctrl < 2 ^ 64)
    (a : Array (Cx R)) (out : List (Cx R)) (ho : out.length = a.size) :
    multi_apply (multi_mul_assign x y) a.toList out =
      multi_apply y (multi_apply x a.toList out) out := by
  have hxy : ∀ g ∈ MultiOp.mul x y, g.ctrl < 2 ^ 64 := by
    intro g hg
    rcases List.mem_append.1 hg with h | h
    · exact hx g h
    · exact hy g h
  rw [multi_mul_assign_eq, multi_apply_eq _ hxy a out ho, multi_apply_eq x hx a out ho,
    multi_apply_eq y hy (MultiOp.applyArr x a) out (by rw [MultiOp.applyArr_size]; exact ho), MultiOp.applyArr_mul]

/-- **on a register**: the translated `QReg::apply` of a product built with the translated `*=` is the translated `apply` of
the left factor followed by that of the right factor -/
theorem C04_code_reg (r : QReg R) (x y : MultiOp R) (hx : ∀ g ∈ x, g.ctrl < 2 ^ 64) (hy : ∀ g ∈ y, g.ctrl < 2 ^ 64) :
    quant_apply (ofModel r) (multi_mul_assign x y) = quant_apply (quant_apply (ofModel r) x) y := by
  have hxy : ∀ g ∈ MultiOp.mul x y, g.ctrl < 2 ^ 64 := by
    intro g hg
    rcases List.mem_append.1 hg with h | h
    · exact hx g h
    · exact hy g h
  rw [multi_mul_assign_eq, quant_apply_eq r _ hxy, quant_apply_eq r x hx, quant_apply_eq (r.apply x) y hy, C04_reg]

end
end Qvnt
