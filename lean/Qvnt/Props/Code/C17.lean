/-
C17, stated about `add_ast` as translated from `/repo` on this run: a session fed chunk by chunk through the translated
function (`addAllG`: stop at the first refusal, as a caller using `?` does) against the whole text fed as one chunk.
-/
import Qvnt.Props.C17
import Qvnt.Props.Code.C12

namespace Qvnt
open Qvnt.Gen2 Interp

section
variable {R : Type} [Add R] [Sub R] [Mul R] [Neg R] [Zero R] [One R] [Div R] [Consts R]
  [LE R] [DecidableLE R] [LT R] [DecidableLT R] [HasSqrt R] [RegConsts R] [ExprFns R] [AngleFns R]

/-- the chunks fed one by one to the translated `add_ast` -/
def addAllG (s : Interp R) : List (List (Node R)) → Except IntError (Interp R)
  | [] => .ok s
  | c :: cs =>
    match int_add_ast s c with
    | .ok s' => addAllG s' cs
    | .error e => .error e

/-- feeding chunks through the translated `add_ast` is feeding them through the model's -/
theorem addAllG_eq (s : Interp R) (hs : KeysNodup s.macros) (chunks : List (List (Node R))) :
    addAllG s chunks = (addAll s chunks).toE := by
  induction chunks generalizing s with
  | nil => rfl
  | cons c cs ih =>
    simp only [addAllG, addAll]
    rw [int_add_ast_eq s hs c]
    cases h : s.addAst c with
    | ok s' => exact ih s' (addAst_keysNodup s s' hs c h)
    | err e => rfl
    | panic p => rfl

/-- **Chunked = whole, for the translated `add_ast`.** From any session with unique gate names: if the chunks are accepted
one by one and the whole text is accepted as one chunk, the two sessions are equivalent (same registers, gate table, an
operator queue with the same blocks up to regrouping of adjacent unconditional gates - `Equiv` - hence equal runs,
`C17_run`), and the records of accepted chunks are the chunk lengths resp. the total length. -/
theorem C17_code_add_ast (s s₁ s₂ : Interp R) (hs : KeysNodup s.macros) (chunks : List (List (Node R)))
    (h₁ : addAllG s chunks = .ok s₁) (h₂ : int_add_ast s chunks.flatten = .ok s₂) :
    Equiv s₁ s₂ ∧ s₁.asts = s.asts ++ chunks.map List.length ∧ s₂.asts = s.asts ++ [chunks.flatten.length] := by
  rw [addAllG_eq s hs] at h₁
  rw [int_add_ast_eq s hs] at h₂
  have e₁ : addAll s chunks = .ok s₁ := by
    cases h : addAll s chunks <;> rw [h] at h₁ <;> simp [Res.toE] at h₁; rw [h₁]
  have e₂ : s.addAst chunks.flatten = .ok s₂ := by
    cases h : s.addAst chunks.flatten <;> rw [h] at h₂ <;> simp [Res.toE] at h₂; rw [h₂]
  exact C17_add_ast s s₁ s₂ chunks e₁ e₂

/-- **accepted in pieces iff accepted whole**, for the translated `add_ast` -/
theorem C17_code_accept_iff (s : Interp R) (hs : KeysNodup s.macros) (chunks : List (List (Node R))) :
    (∃ s₁, addAllG s chunks = .ok s₁) ↔ (∃ s₂, int_add_ast s chunks.flatten = .ok s₂) := by
  rw [addAllG_eq s hs, int_add_ast_eq s hs]
  have h := C17_accept_iff s chunks
  constructor
  · rintro ⟨s₁, h₁⟩
    have : ∃ s₁, addAll s chunks = .ok s₁ := by
      cases hh : addAll s chunks <;> rw [hh] at h₁ <;> simp [Res.toE] at h₁; exact ⟨_, rfl⟩
    obtain ⟨s₂, h₂⟩ := h.1 this
    exact ⟨s₂, by rw [h₂]; rfl⟩
  · rintro ⟨s₂, h₂⟩
    have : ∃ s₂, s.addAst chunks.flatten = .ok s₂ := by
      cases hh : s.addAst chunks.flatten <;> rw [hh] at h₂ <;> simp [Res.toE] at h₂; exact ⟨_, rfl⟩
    obtain ⟨s₁, h₁⟩ := h.2 this
    exact ⟨s₁, by rw [h₁]; rfl⟩

/-- **refusals agree**: when the model refuses the whole text with `e`, the chunked session through the translated function
stops with `e` as well, and conversely -/
theorem C17_code_err (s : Interp R) (hs : KeysNodup s.macros) (chunks : List (List (Node R))) (e : IntError)
    (h : s.addAst chunks.flatten = .err e) :
    addAllG s chunks = .error e ∧ int_add_ast s chunks.flatten = .error e := by
  rw [addAllG_eq s hs, int_add_ast_eq s hs, h, (C17_err_iff s chunks e).2 h]
  exact ⟨rfl, rfl⟩

end
end Qvnt
