/-
C05, stated about the public register operations as translated from `/repo/src/register/quant.rs` on this run
(`with_state`, `apply`, `measure_mask`, `reset_by_mask`, `set_num`, `reset`), at the real numbers: every register value that
can be produced from a constructor call by any number of these operations is well-formed and has squared norm exactly 1.
The random draws are inputs (the stream `ds`); the contract of `WeightedIndex` - an index of weight zero is never
returned - appears as the hypothesis that a consumed draw names an index of non-zero amplitude.
-/
import Qvnt.Props.C05
import Qvnt.Lemmas.GenQuant
import Qvnt.Lemmas.GenQProb.quant_get_absolute_eq
import Qvnt.Lemmas.GenOps.quant_apply_eq
import Qvnt.Lemmas.GenMeas

namespace Qvnt
open Qvnt.Gen2 Qvnt.Gen

/-- one public operation of the translated code on a register value -/
inductive StepG : QRegG ℝ → QRegG ℝ → Prop
  /-- `apply(op)`: gates addressed to qubits of the register (`GatesPreserve`), control masks machine words -/
  | apply (q : QRegG ℝ) (o : MultiOp ℝ) (hc : ∀ g ∈ o, g.ctrl < 2 ^ 64) (hp : GatesPreserve q.q_num o) :
      StepG q (quant_apply q o)
  /-- `measure_mask(mask)`: if a draw is consumed it names an index of non-zero amplitude -/
  | measure (q q' : QRegG ℝ) (mask : Nat) (ds rest : List Nat) (c : CRegG)
      (hd : mask &&& q.q_mask ≠ 0 → ∀ d ∈ ds.head?, q.psi.getD d 0 ≠ 0)
      (h : quant_measure_mask q mask ds = some (c, q', rest)) : StepG q q'
  /-- `reset_by_mask(mask)`: the same -/
  | resetByMask (q q' : QRegG ℝ) (mask : Nat) (ds rest : List Nat)
      (hd : mask &&& q.q_mask ≠ q.q_mask → mask &&& q.q_mask ≠ 0 → ∀ d ∈ ds.head?, q.psi.getD d 0 ≠ 0)
      (h : quant_reset_by_mask q mask ds = some (q', rest)) : StepG q q'
  | setNum (q : QRegG ℝ) (n : Nat) (hn : n < 64) : StepG q (quant_set_num q n)
  | reset (q : QRegG ℝ) (i : Nat) : StepG q (quant_reset q i)

/-- register values obtained from `with_state(n, s)` (`new(n)` is `with_state(n, 0)`) by any number of operations -/
inductive ReachableG : QRegG ℝ → Prop
  | init (n s : Nat) (hn : n < 64) (q : QRegG ℝ) (h : quant_with_state n s = some q) : ReachableG q
  | step {q q' : QRegG ℝ} : ReachableG q → StepG q q' → ReachableG q'

private theorem getD_ofModel (r : QReg ℝ) (d : Nat) : (ofModel r).psi.getD d 0 = bufFn r.psi d := by
  simp [ofModel, bufFn, Array.getD_eq_getD_getElem?, List.getD_eq_getElem?_getD]

/-- **refinement**: every reachable value of the translated code is (the record form of) a reachable register of the
model, with fewer than 64 qubits -/
theorem C05_code_refines (q : QRegG ℝ) (h : ReachableG q) : ∃ r : QReg ℝ, q = ofModel r ∧ Reachable r := by
  induction h with
  | init n s hn q h =>
    rw [quant_with_state_eq n s hn] at h
    exact ⟨_, (Option.some.inj h).symm, Reachable.init n s⟩
  | step _ hs ih =>
    obtain ⟨r, rfl, hr⟩ := ih
    cases hs with
    | apply o hc hp =>
      exact ⟨_, quant_apply_eq r o hc, hr.step (Step.apply r o hp)⟩
    | measure _ mask ds rest c hd h =>
      rw [quant_measure_mask_eq] at h
      by_cases hm : mask &&& r.qMask = 0
      · rw [if_pos hm] at h
        simp only [Option.some.injEq, Prod.mk.injEq] at h
        exact ⟨r, h.2.1.symm, hr⟩
      · rw [if_neg hm] at h
        cases ds with
        | nil => simp at h
        | cons d ds' =>
          simp only [Option.some.injEq, Prod.mk.injEq] at h
          refine ⟨_, h.2.1.symm, hr.step (Step.measure r mask d fun _ => ?_)⟩
          have hne : bufFn r.psi d ≠ 0 := by
            have := hd (by simpa [ofModel] using hm) d (by simp)
            rwa [getD_ofModel] at this
          exact C05_possible r mask d hne
    | resetByMask _ mask ds rest hd h =>
      rw [quant_reset_by_mask_eq] at h
      by_cases hall : mask &&& r.qMask = r.qMask
      · rw [if_pos hall] at h
        simp only [Option.some.injEq, Prod.mk.injEq] at h
        exact ⟨_, h.1.symm, hr.step (Step.resetByMask r mask 0 fun h1 _ => absurd hall h1)⟩
      · rw [if_neg hall] at h
        by_cases hm : mask &&& r.qMask = 0
        · rw [if_pos hm] at h
          simp only [Option.some.injEq, Prod.mk.injEq] at h
          exact ⟨_, h.1.symm, hr.step (Step.resetByMask r mask 0 fun _ h2 => absurd hm h2)⟩
        · rw [if_neg hm] at h
          cases ds with
          | nil => simp at h
          | cons d ds' =>
            simp only [Option.some.injEq, Prod.mk.injEq] at h
            refine ⟨_, h.1.symm, hr.step (Step.resetByMask r mask d fun _ _ => ?_)⟩
            have hne : bufFn r.psi d ≠ 0 := by
              have := hd (by simpa [ofModel] using hall) (by simpa [ofModel] using hm) d (by simp)
              rwa [getD_ofModel] at this
            exact C05_possible r mask d hne
    | setNum n hn => exact ⟨_, quant_set_num_eq r n hn, hr.step (Step.setNum r n)⟩
    | reset i => exact ⟨_, quant_reset_eq r i, hr.step (Step.reset r i)⟩

/-- **Every reachable register value of the translated code is valid**: the buffer has `max(2^n, 8)` entries, the mask is
`2^n - 1`, no amplitude lies outside the `2^n` basis states, and `get_absolute` (as translated) is exactly 1. -/
theorem C05_code_reachable (q : QRegG ℝ) (h : ReachableG q) :
    q.psi.length = max (2 ^ q.q_num) 8 ∧ q.q_mask = 2 ^ q.q_num - 1 ∧
      (∀ i, 2 ^ q.q_num ≤ i → q.psi.getD i 0 = 0) ∧ quant_get_absolute q = 1 := by
  obtain ⟨r, rfl, hr⟩ := C05_code_refines q h
  have hi := C05_reachable r hr
  refine ⟨by simpa [ofModel] using hi.1.1, hi.1.2.1, fun i hi' => ?_, ?_⟩
  · rw [getD_ofModel]; exact hi.1.2.2 i hi'
  · rw [quant_get_absolute_eq]; exact C05_reachable_unit r hr

/-- non-vacuity: `with_state(3, 0)`, then `reset(5)`, then `set_num(4)` -/
example : ∃ q : QRegG ℝ, ReachableG (quant_set_num (quant_reset q 5) 4) :=
  ⟨_, ((ReachableG.init 3 0 (by decide) _ (quant_with_state_eq 3 0 (by decide))).step (StepG.reset _ 5)).step
    (StepG.setNum _ 4 (by decide))⟩

end Qvnt
