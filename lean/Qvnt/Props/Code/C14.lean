/-
C14, stated about `QReg::with_state`, `set_num`, `tensor_prod` as translated from `/repo` on this run (`Qvnt.Generated.Regs`).
-/
import Qvnt.Props.C14
import Qvnt.Lemmas.GenQuant.quant_with_state_eq
import Qvnt.Lemmas.GenQuant.quant_set_num_eq
import Qvnt.Lemmas.GenQuant.quant_new_eq
import Qvnt.Lemmas.GenQuant.quant_tensor_prod_eq

namespace Qvnt
open Qvnt.Gen2

section
set_option linter.unusedSectionVars false
variable {R : Type} [Add R] [Sub R] [Mul R] [Div R] [Neg R] [Zero R] [One R] [Consts R]
  [LE R] [DecidableLE R] [LT R] [DecidableLT R] [HasSqrt R] [RegConsts R]

/-- **`QReg::with_state(n, s)` as translated** never reaches its `unreachable_unchecked`, has `max(2^n, 8)` amplitudes,
`n` qubits, mask `2^n - 1`, and is the basis state `s mod 2^n` -/
theorem C14_code_with_state (n s : Nat) (h : n < 64) :
    ∃ q : QRegG R, quant_with_state n s = some q ∧ q.psi.length = max (2 ^ n) 8 ∧ q.q_num = n ∧ q.q_mask = 2 ^ n - 1 ∧
      ∀ i, q.psi.getD i 0 = if i = s % 2 ^ n then 1 else 0 := by
  refine ⟨_, quant_with_state_eq n s h, ?_⟩
  obtain ⟨h1, h2, h3, h4⟩ := C14_new (R := R) n s
  refine ⟨by simp [ofModel, h1], h2, h3, ?_⟩
  intro i
  have := h4 i
  simp only [bufFn] at this
  simp only [ofModel]
  rw [← this]
  simp [Array.getD_eq_getD_getElem?, List.getD_eq_getElem?_getD]

/-- **shrinking with the translated `set_num`** yields exactly the translated `QReg::new(n)` -/
theorem C14_code_shrink (r : QReg R) (n : Nat) (h : n < r.qNum) (hn : n < 64) :
    quant_set_num (ofModel r) n = quant_new n := by
  rw [quant_set_num_eq r n hn, quant_new_eq n hn, C14_shrink r n h]

/-- **growing with the translated `set_num`** adds qubits in `|0>`: the old amplitudes stay where they were, every other
amplitude is 0, sizes and mask are those of `n` qubits -/
theorem C14_code_grow (r : QReg R) (n : Nat) (h : r.qNum ≤ n) (hn : n < 64)
    (wf : r.psi.size = max (2 ^ r.qNum) 8 ∧ r.qMask = 2 ^ r.qNum - 1 ∧ ∀ i, 2 ^ r.qNum ≤ i → bufFn r.psi i = 0) :
    let q := quant_set_num (ofModel r) n
    q.q_num = n ∧ q.q_mask = 2 ^ n - 1 ∧ q.psi.length = max (2 ^ n) 8 ∧
    ∀ i, q.psi.getD i 0 = if i < 2 ^ r.qNum then bufFn r.psi i else 0 := by
  intro q
  obtain ⟨h1, h2, h3, h4⟩ := C14_grow r n h wf
  have hq : q = ofModel (r.setNum n) := quant_set_num_eq r n hn
  rw [hq]
  refine ⟨h1, h2, by simpa [ofModel] using h3, fun i => ?_⟩
  rw [← h4 i]
  simp [ofModel, bufFn, Array.getD_eq_getD_getElem?, List.getD_eq_getElem?_getD]

/-- **the translated tensor product**: sizes add, and amplitude `i` is `a[i mod 2^na] * b[i div 2^na]` below `2^(na+nb)`,
zero above -/
theorem C14_code_tensor (a b : QReg R) (ha : a.qMask = 2 ^ a.qNum - 1) (hb : b.qMask = 2 ^ b.qNum - 1)
    (hs : a.qNum + b.qNum < 64) :
    let t := quant_tensor_prod (ofModel a) (ofModel b)
    t.q_num = a.qNum + b.qNum ∧ t.q_mask = 2 ^ (a.qNum + b.qNum) - 1 ∧ t.psi.length = max (2 ^ (a.qNum + b.qNum)) 8 ∧
    ∀ i, t.psi.getD i 0 =
      if i < 2 ^ (a.qNum + b.qNum) then bufFn a.psi (i % 2 ^ a.qNum) * bufFn b.psi (i / 2 ^ a.qNum) else 0 := by
  intro t
  have ht : t = ofModel (a.tensorProd b) := quant_tensor_prod_eq a b hs
  obtain ⟨h1, h2, h3, h4⟩ := C14_tensor a b ha hb
  rw [ht]
  refine ⟨h1, h2, by simp [ofModel, h3], ?_⟩
  intro i
  rw [← h4 i]
  simp [ofModel, bufFn, Array.getD_eq_getD_getElem?, List.getD_eq_getElem?_getD]

end
end Qvnt
