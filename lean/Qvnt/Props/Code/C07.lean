/-
C07, stated about `QReg::measure_mask` as translated from `/repo` on this run. The random draw is an input of the translated
function; what ties its *distribution* to the source is the companion definition `quant_measure_mask_weights` (emitted by
`tools/rs2lean2.py`: the argument of `WeightedIndex::new` at the draw, evaluated in the state the function has there).
-/
import Qvnt.Props.C07
import Qvnt.Lemmas.Regs14
import Qvnt.Lemmas.GenMeas.quant_measure_mask_eq
import Qvnt.Lemmas.GenMeas.quant_measure_mask_weights_eq

namespace Qvnt
open Qvnt.Gen2 Qvnt.Gen

/-- **the weights the translated `measure_mask` samples with are the Born probabilities of the basis states**: one weight per
basis state of the register, weight `i` = `|ψ_i|² / ‖ψ‖²` -/
theorem C07_code_weights (r : QReg ℝ) (hwf : WF r) (hn : r.qNum < 64) (mask : Nat) (hm : mask &&& r.qMask ≠ 0) :
    ∃ w, quant_measure_mask_weights (ofModel r) mask = some w ∧ w.length = 2 ^ r.qNum ∧
      ∀ i, i < 2 ^ r.qNum → w[i]? = some ((bufFn r.psi i).normSq / nrm r) := by
  have hs : 2 ^ r.qNum ≤ r.psi.size := by rw [hwf.1]; exact le_max_left _ _
  refine ⟨r.getProbabilities, ?_, QReg.getProbabilities_length r, fun i hi => C07_reported r i hi⟩
  rw [quant_measure_mask_weights_eq r mask hn hs, if_neg hm]

/-- no weights (no draw) when no qubit of the register is measured -/
theorem C07_code_weights_empty (r : QReg ℝ) (hwf : WF r) (hn : r.qNum < 64) (mask : Nat) (hm : mask &&& r.qMask = 0) :
    quant_measure_mask_weights (ofModel r) mask = none := by
  have hs : 2 ^ r.qNum ≤ r.psi.size := by rw [hwf.1]; exact le_max_left _ _
  rw [quant_measure_mask_weights_eq r mask hn hs, if_pos hm]

/-- **Born rule for the translated `measure_mask`**: the total weight of the draws for which the translated function returns
the classical value `v` is the Born probability of reading `v` on the measured qubits,
`(Σ_{i & mask = v} |ψ_i|²) / ‖ψ‖²` -/
theorem C07_code_born (r : QReg ℝ) (hwf : WF r) (hn : r.qNum < 64) (mask v : Nat) (hm : mask &&& r.qMask ≠ 0) :
    ∃ w, quant_measure_mask_weights (ofModel r) mask = some w ∧
      ∑ d ∈ (Finset.range (2 ^ r.qNum)).filter
          (fun d => (quant_measure_mask (ofModel r) mask [d]).map (fun res => res.1.value) = some v), w.getD d 0
        = (∑ i ∈ (Finset.range (2 ^ r.qNum)).filter (fun i => i &&& mask = v), (bufFn r.psi i).normSq) / nrm r := by
  have hs : 2 ^ r.qNum ≤ r.psi.size := by rw [hwf.1]; exact le_max_left _ _
  refine ⟨r.getProbabilities, by rw [quant_measure_mask_weights_eq r mask hn hs, if_neg hm], ?_⟩
  rw [← C07_born, C07_pushforward r hwf.2.1 (Nat.le_of_lt hn) mask v]
  apply Finset.sum_congr _ (fun _ _ => rfl)
  apply Finset.filter_congr
  intro d _
  rw [quant_measure_mask_eq, if_neg hm]
  simp [cregOfModel]

end Qvnt
