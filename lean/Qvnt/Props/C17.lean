/-
C17 — feeding a program in pieces gives the same computation as feeding it whole.

MODEL objects: `Interp.addAst` (`Int::add_ast`), `Interp.astChanges` + `Interp.appendInt`
(`Int::ast_changes`, `Int::append_int`), `Interp.new`, `Sym.new`, `Sym.finish`, `Sym.reset`.
`Interp.addAll s chunks` feeds the chunks one by one with `add_ast`, `Interp.addAllDelta`
does the same with `ast_changes` against the current interpreter followed by `append_int`.

`Interp.Equiv s₁ s₂` means: same measurement mode, same declared quantum and classical
registers (alias of every bit, in order), same gate definitions (same list), and block
queues whose event lists act alike on every register state and every stream of measurement
outcomes (`≃ₑ`; the queues themselves differ: chunk boundaries close the unconditional tail
into a block). The record `asts` of accepted chunks is not part of `Equiv`; it is stated
separately.

A chunk is a list of whole statements, so "cut at statement boundaries" is `List.flatten`.
The scalar type `R` is arbitrary (no algebraic law of `R` is used).
-/
import Qvnt.Lemmas.Queue

namespace Qvnt
open Interp

section
variable {R : Type} [Add R] [Sub R] [Mul R] [Neg R] [Div R] [ExprFns R] [AngleFns R]

/-- processing `a ++ b` is processing `a`, then `b` from where `a` ended; the first refusal
is the refusal of the whole -/
theorem C17_process_append (self changes : Interp R) (a b : List (Node R)) :
    processNodes self changes (a ++ b) =
      match processNodes self changes a with
      | .ok ch => processNodes self ch b
      | r => r := processNodes_append self changes a b

/-- `add_ast` is `ast_changes` against an empty set of changes followed by `append_int`, so
the two ways of feeding chunks are the same function -/
theorem C17_delta_eq (s : Interp R) (chunks : List (List (Node R))) :
    addAllDelta s chunks = addAll s chunks := (addAll_eq_addAllDelta s chunks).symm

/-- the record of accepted source chunks lists every accepted chunk once, in order -/
theorem C17_asts (s s₁ : Interp R) (chunks : List (List (Node R))) (h : addAll s chunks = .ok s₁) :
    s₁.asts = s.asts ++ chunks.map List.length := addAll_asts h

end

section
variable {R : Type} [Add R] [Sub R] [Mul R] [Neg R] [Zero R] [One R] [Div R] [Consts R]
  [LE R] [DecidableLE R] [LT R] [DecidableLT R] [HasSqrt R] [RegConsts R] [ExprFns R] [AngleFns R]

/-- **Chunked = whole.** From any session `s`: if the chunks are accepted one by one and the
concatenated text is accepted in one go, the two resulting interpreters are equivalent; the
chunked one records every chunk, the other one records the single text. -/
theorem C17_add_ast (s s₁ s₂ : Interp R) (chunks : List (List (Node R)))
    (h₁ : addAll s chunks = .ok s₁) (h₂ : addAst s chunks.flatten = .ok s₂) :
    Equiv s₁ s₂ ∧ s₁.asts = s.asts ++ chunks.map List.length ∧
      s₂.asts = s.asts ++ [chunks.flatten.length] :=
  ⟨addAll_equiv h₁ h₂, addAll_asts h₁, addAst_asts h₂⟩

/-- the same from the empty session: `Int::new(whole text)` -/
theorem C17_new (s₁ s₂ : Interp R) (chunks : List (List (Node R)))
    (h₁ : addAll {} chunks = .ok s₁) (h₂ : Interp.new chunks.flatten = .ok s₂) :
    Equiv s₁ s₂ ∧ s₁.asts = chunks.map List.length ∧ s₂.asts = [chunks.flatten.length] :=
  C17_add_ast {} s₁ s₂ chunks h₁ h₂

/-- the chunked session is accepted exactly when the whole text is -/
theorem C17_accept_iff (s : Interp R) (chunks : List (List (Node R))) :
    (∃ s₁, addAll s chunks = .ok s₁) ↔ (∃ s₂, addAst s chunks.flatten = .ok s₂) :=
  addAll_accept_iff s chunks

/-- **Refusals agree as well**: the chunked session is refused with error `e` (at whatever
chunk) exactly when the whole text is refused with `e` — same error value, payload included
(the counts `check_dup` reports are per alias and an alias is never declared twice, so
they cannot differ) -/
theorem C17_err_iff (s : Interp R) (chunks : List (List (Node R))) (e : IntError) :
    addAll s chunks = .err e ↔ addAst s chunks.flatten = .err e := addAll_err_iff s chunks e

/-- errors and panics together -/
theorem C17_fail_alike (s : Interp R) (chunks : List (List (Node R))) :
    (addAll s chunks).fail? = (addAst s chunks.flatten).fail? := addAll_fail s chunks

/-- the same with `ast_changes` + `append_int` -/
theorem C17_delta (s s₁ s₂ : Interp R) (chunks : List (List (Node R)))
    (h₁ : addAllDelta s chunks = .ok s₁) (h₂ : addAst s chunks.flatten = .ok s₂) :
    Equiv s₁ s₂ ∧ s₁.asts = s.asts ++ chunks.map List.length :=
  ⟨addAll_equiv (C17_delta_eq s chunks ▸ h₁) h₂, addAll_asts (C17_delta_eq s chunks ▸ h₁)⟩

/-- Declarations and gate definitions of earlier chunks stay visible: if `a ++ b` is accepted
as one chunk, then `a` is accepted, `b` is accepted by the session that results, and the
outcome is equivalent. -/
theorem C17_split (s s₂ : Interp R) (a b : List (Node R)) (h : addAst s (a ++ b) = .ok s₂) :
    ∃ s' s₂', addAst s a = .ok s' ∧ addAst s' b = .ok s₂' ∧ Equiv s₂' s₂ := addAst_split s a b s₂ h

/-- conversely, two chunks accepted in turn are accepted as one -/
theorem C17_join (s s' s₂' : Interp R) (a b : List (Node R))
    (ha : addAst s a = .ok s') (hb : addAst s' b = .ok s₂') :
    ∃ s₂, addAst s (a ++ b) = .ok s₂ := addAst_join s s' s₂' a b ha hb

end

section
variable {R : Type} [Add R] [Sub R] [Mul R] [Neg R] [Zero R] [One R] [Div R] [Consts R]
  [LE R] [DecidableLE R] [LT R] [DecidableLT R] [HasSqrt R] [RegConsts R]

/-- **Equivalent interpreters compute the same.** Simulators built from them, run from
|0…0> with the same measurement outcomes, end in the same quantum state (whole buffer), the
same classical register and the same unused outcomes — or both run out of outcomes. -/
theorem C17_run (s₁ s₂ : Interp R) (h : Equiv s₁ s₂) (drawn : List Nat) :
    (Sym.finish (Sym.new s₁) drawn).map Sym.final = (Sym.finish (Sym.new s₂) drawn).map Sym.final :=
  Sym.finish_congr h drawn

/-- `finish` keeps the measurement mode, the queue, the buffer length, widths and masks -/
theorem C17_finish_shape (s s' : Sym R) (drawn rest : List Nat)
    (h : Sym.finish s drawn = some (s', rest)) :
    s'.mOp = s.mOp ∧ s'.qOps = s.qOps ∧ s'.qReg.psi.size = s.qReg.psi.size ∧
      s'.qReg.qNum = s.qReg.qNum ∧ s'.qReg.qMask = s.qReg.qMask ∧
      s'.cReg.qNum = s.cReg.qNum ∧ s'.cReg.qMask = s.cReg.qMask :=
  Sym.finish_preserves_shape h

/-- **Re-running reproduces the run from |0…0>.** After a run of the simulator built from
`int`, `reset` gives back exactly `Sym.new int`, so a second `finish` is the first one
again (with whatever outcomes it is given). -/
theorem C17_rerun (int : Interp R) (drawn rest : List Nat) (s' : Sym R)
    (h : Sym.finish (Sym.new int) drawn = some (s', rest)) :
    s'.reset = Sym.new int ∧
      ∀ drawn', Sym.finish s'.reset drawn' = Sym.finish (Sym.new int) drawn' := by
  obtain ⟨hm, ho, hs, hn, hk, hcn, hck⟩ := Sym.finish_preserves_shape h
  have : s'.reset = Sym.new int :=
    Sym.reset_eq_new s' int hm ho
      (by rw [hs]; simp [Sym.new, QReg.new, QReg.basisBuf]) hn hk hcn hck
  exact ⟨this, fun _ => by rw [this]⟩

/-- any number of runs: resetting the fresh simulator is the identity -/
theorem C17_reset_new (int : Interp R) : (Sym.new int).reset = Sym.new int :=
  Sym.reset_eq_new _ int rfl rfl (by simp [Sym.new, QReg.new, QReg.basisBuf]) rfl rfl rfl rfl

end

/-! ### non-vacuity -/

section
variable {R : Type} [Add R] [Sub R] [Mul R] [Neg R] [Div R] [ExprFns R] [AngleFns R]

/-- a three-chunk session (declarations; a reset; a barrier and a gate definition) is
accepted, and so is the concatenated text: both hypotheses of `C17_new` hold together -/
example : (match addAll (R := R) {} [[.qreg "q" 2, .creg "c" 2], [.reset (.register "q")],
      [.barrier, .gate "foo" ["a"] [] []]] with
    | .ok s => s.asts | _ => []) = [2, 1, 2] := rfl

example : (match Interp.new (R := R) [.qreg "q" 2, .creg "c" 2, .reset (.register "q"),
      .barrier, .gate "foo" ["a"] [] []] with
    | .ok s => (s.asts, s.qReg, s.cReg) | _ => ([], [], [])) = ([5], ["q", "q"], ["c", "c"]) := rfl

/-- a later chunk that uses an undeclared register is refused (acceptance is not trivial) -/
example : (match addAll (R := R) {} [[.qreg "q" 2], [.reset (.register "r")]] with
    | .err e => some e | _ => none) = some (.noQReg "r") := rfl

end

end Qvnt
