/-
C08 — multi-threaded execution agrees with single-threaded under every schedule.

MODEL objects (`Qvnt/Model/Pool.lean`): `fillSched f σ out` (the element-wise closure of a
parallel sweep run for the indices in the order `σ`: any split of the index range into chunks,
any work-stealing order), `Tree` / `Tree.leaves` / `Tree.sum` (the shape in which a parallel
reduction combines partial sums), `numThreads` (`QReg::num_threads`), `modelAnd`
(`threading::Model::and`).

The sweep statements hold for every element type, so they cover the `Float` instance the
driver executes: no arithmetic is involved, each output cell is written with a value that
depends on its index only. The reduction statements need associativity (and, for reordered
leaves, commutativity) of `+` as hypotheses: they are theorems about exact arithmetic.
-/
import Qvnt.Lemmas.PoolLemmas

namespace Qvnt
open Qvnt.Pool

/-- **Schedule independence of a parallel sweep.** In whatever order the `n` indices are
visited (any split into chunks, any stealing), each exactly once, the output buffer ends up as
the single-threaded result `[f 0, f 1, …, f (n-1)]`, whatever it contained before. -/
theorem C08_fill {α : Type} (f : Nat → α) (n : Nat) (σ : List Nat)
    (hσ : σ.Perm (List.range n)) (out : Array α) (hs : out.size = n) :
    fillSched f σ out = Array.ofFn (n := n) (fun i => f i.val) :=
  fillSched_cover f n σ (fun _ hi => hσ.mem_iff.mpr (List.mem_range.mpr hi)) out hs

/-- The same when indices may be visited more than once (writes are idempotent): it is enough
that every index below `n` is visited and nothing else is. -/
theorem C08_fill_repeats {α : Type} (f : Nat → α) (n : Nat) (σ : List Nat)
    (hcov : ∀ i, i < n → i ∈ σ) (_hin : ∀ i ∈ σ, i < n) (out : Array α) (hs : out.size = n) :
    fillSched f σ out = Array.ofFn (n := n) (fun i => f i.val) :=
  fillSched_cover f n σ hcov out hs

/-- Any two schedules give equal buffers, also from different previous buffer contents:
repeating the computation gives bit-identical amplitudes. -/
theorem C08_fill_two_schedules {α : Type} (f : Nat → α) (n : Nat) (σ τ : List Nat)
    (hσ : σ.Perm (List.range n)) (hτ : τ.Perm (List.range n)) (out out' : Array α)
    (hs : out.size = n) (hs' : out'.size = n) :
    fillSched f σ out = fillSched f τ out' := by
  rw [C08_fill f n σ hσ out hs, C08_fill f n τ hτ out' hs']

/-- A sweep never changes the length of the buffer, and a cell that is not visited keeps its
value (no schedule writes outside its indices). -/
theorem C08_fill_frame {α : Type} (f : Nat → α) (σ : List Nat) (out : Array α) :
    (fillSched f σ out).size = out.size ∧
    ∀ j (hj : j < out.size), j ∉ σ →
      (fillSched f σ out)[j]'(by rw [fillSched_size]; exact hj) = out[j] := by
  refine ⟨fillSched_size f σ out, fun j hj hn => ?_⟩
  rw [fillSched_getElem f σ out j hj, if_neg hn]

/-- **Reduction trees.** Over an associative addition, the sum computed along any reduction
tree is the plain left-to-right sum of its leaves (first leaf `x`, then the others). Note that
`f64` addition is NOT associative: this is exactly why the property promises derived sums to
rounding only, and this statement is about exact arithmetic. -/
theorem C08_reduce_assoc {α : Type} [Add α] (hassoc : ∀ a b c : α, a + b + c = a + (b + c))
    (t : Tree α) : ∃ x xs, t.leaves = x :: xs ∧ t.sum = xs.foldl (· + ·) x := by
  have h := Tree.sum_eq_sumNE hassoc t
  match hl : t.leaves with
  | [] => exact absurd hl (Tree.leaves_ne_nil t)
  | x :: xs =>
    rw [hl] at h
    exact ⟨x, xs, rfl, by simpa [sumNE] using h.symm⟩

/-- Hence every two reduction trees with the same leaves in the same order (any way of
splitting the work) give the same sum. -/
theorem C08_reduce_same_leaves {α : Type} [Add α]
    (hassoc : ∀ a b c : α, a + b + c = a + (b + c)) (t₁ t₂ : Tree α)
    (hl : t₁.leaves = t₂.leaves) : t₁.sum = t₂.sum := by
  have h1 := Tree.sum_eq_sumNE hassoc t₁
  have h2 := Tree.sum_eq_sumNE hassoc t₂
  rw [hl, h2] at h1
  exact (Option.some.inj h1).symm

/-- With a commutative addition too, the leaves may be combined in any order (partial sums
arriving in any order): trees whose leaves are permutations of each other have equal sums.
(Again exact arithmetic; not true of `f64`.) -/
theorem C08_reduce_comm {α : Type} [Add α] (hassoc : ∀ a b c : α, a + b + c = a + (b + c))
    (hcomm : ∀ a b : α, a + b = b + a) (t₁ t₂ : Tree α)
    (hl : t₁.leaves.Perm t₂.leaves) : t₁.sum = t₂.sum := by
  have h1 := Tree.sum_eq_sumNE hassoc t₁
  have h2 := Tree.sum_eq_sumNE hassoc t₂
  rw [sumNE_perm hassoc hcomm hl, h2] at h1
  exact (Option.some.inj h1).symm

/-- A thread count is accepted exactly when it is at least one and at most what the machine
offers: zero threads and too many threads are refused. -/
theorem C08_threads (k avail : Nat) : (numThreads k avail).isSome ↔ 0 < k ∧ k ≤ avail := by
  unfold numThreads
  by_cases h0 : k = 0
  · simp [h0]
  · by_cases h1 : k > avail
    · simp [h0, h1]
    · by_cases h2 : k = 1 <;> simp [h0, h1, h2] <;> omega

/-- one thread means the single-threaded mode -/
theorem C08_threads_single (avail : Nat) (ha : 1 ≤ avail) : numThreads 1 avail = some 0 := by
  unfold numThreads
  have : ¬ 1 > avail := by omega
  simp [this]

/-- an accepted count above one is kept as it is -/
theorem C08_threads_multi (k avail : Nat) (hk : 1 < k) (ha : k ≤ avail) :
    numThreads k avail = some k := by
  unfold numThreads
  have h0 : ¬ k = 0 := by omega
  have h1 : ¬ k > avail := by omega
  have h2 : ¬ k = 1 := by omega
  simp [h0, h1, h2]

/-- combining the threading models of two registers does not depend on the order … -/
theorem C08_and_comm (a b : Nat) : modelAnd a b = modelAnd b a := by
  unfold modelAnd; split <;> split <;> (try split) <;> omega

/-- … nor on the grouping … -/
theorem C08_and_assoc (a b c : Nat) :
    modelAnd (modelAnd a b) c = modelAnd a (modelAnd b c) := by
  unfold modelAnd
  by_cases ha : a = 0 <;> by_cases hb : b = 0 <;> by_cases hc : c = 0 <;>
    simp [ha, hb, hc] <;> (repeat' split) <;> omega

/-- … and single-threaded is neutral. -/
theorem C08_and_single (a : Nat) : modelAnd 0 a = a ∧ modelAnd a 0 = a := by
  unfold modelAnd
  refine ⟨by simp, ?_⟩
  split <;> simp_all

/-- non-vacuity: two different visiting orders of four cells, different junk in the buffers -/
example : fillSched (fun i => 10 * i) [2, 0, 3, 1] #[7, 7, 7, 7]
    = fillSched (fun i => 10 * i) [0, 1, 2, 3] #[0, 0, 0, 0] := by decide

example : [2, 0, 3, 1].Perm (List.range 4) := by decide

/-- non-vacuity: two differently shaped trees over the same leaves, over `Int` -/
example : (Tree.node (.node (.leaf (1 : Int)) (.leaf 2)) (.leaf 3)).sum
    = (Tree.node (.leaf (1 : Int)) (.node (.leaf 2) (.leaf 3))).sum := by decide

/-- non-vacuity / sharpness: the refusal cases and an accepted case -/
example : numThreads 0 8 = none ∧ numThreads 9 8 = none ∧ numThreads 1 8 = some 0
    ∧ numThreads 8 8 = some 8 := by decide

end Qvnt
