/-
C05 — a register always holds a valid (unit-norm, finite) quantum state.

MODEL objects: `QReg.withState`, `QReg.apply`, `QReg.measureMask`, `QReg.collapseMask`,
`QReg.rescale`, `QReg.normalize`, `QReg.resetByMask`, `QReg.reset`, `QReg.setNum`,
`QReg.tensorProd`, `QReg.getAbsolute`, `QReg.getProbabilities`, over the reals
(`Lemmas/RealInst`).

`nrm r` is the number `get_absolute` returns: the sum of `|ψ_i|²` over the WHOLE buffer, padding
included (`C05_norm_eq`). `WF r`: buffer length `max (2^n) 8`, `qMask = 2^n − 1`, and every cell
at or above `2^n` is zero (no amplitude outside the register's `2^n` states). `Inv r`: `WF r` and
`(1 − 1e-9)² ≤ nrm r ≤ 1` — norm 1 within the threshold below which `normalize` does not rescale.
Gates enter through the hypothesis "every element of the queue preserves the squared norm of an
`n`-qubit state and keeps the outside at zero" (`GatesPreserve`), which is what
`Lemmas/Norm.lean` (`actAll_normSq`, `actAll_outside`) proves for unitary gates addressed to
qubits of the register.

MEASUREMENT. `measure_mask` (hence `reset_by_mask`) renormalises with `rescale`: it divides by
the norm of the collapsed vector whenever that norm is positive and leaves a zero vector alone.
So after a measurement that draws (non-empty effective mask) a possible index the squared norm
is EXACTLY 1 (`C05_measure_floor`), and every register reachable from a constructor has squared
norm exactly 1 (`C05_reachable_unit`). The hypothesis `hposs` of `C05_measure`,
`C05_resetByMask` and of the `measure` / `resetByMask` constructors of `Step` is the
`WeightedIndex` contract: IF a draw takes place, the drawn index `d` has positive weight, i.e.
the vector collapsed on it is not zero, `0 < nrm (r.collapseMask d (mask &&& r.qMask))`. It
follows from `bufFn r.psi d ≠ 0` (`C05_possible`). Without it the statement is false: an
impossible draw leaves the zero vector (norm 0, see `C06_impossible_draw`), which is not a valid
state. No draw takes place when the effective mask is empty (`measure_mask`), or when it is empty
or names every qubit (`reset_by_mask`); then `hposs` asks nothing.

REMARKS.
* `normalize` (still a function of the crate, no longer used by `measure_mask`) rescales only norms
  BELOW 1 (`1 − norm ≤ 1e-9` is also true for every norm above 1): `C05_normalize_above_one`.
* A product of two valid registers has squared norm `≥ (1 − 1e-9)⁴`, not `(1 − 1e-9)²`: the
  slack of `Inv` compounds under `tensor_prod` (`C05_tensor_inv`) and only there; a later
  measurement removes it altogether (`C05_measure_floor`). For registers built by the public
  operations there is no slack to begin with (`C05_reachable_tensor_unit`).
-/
import Qvnt.Lemmas.Measure

namespace Qvnt

/-! ### what `get_absolute` computes -/

/-- the reported squared norm is the sum of the squared moduli of all buffer cells; for a
well-formed register that is the sum over the `2^n` basis states -/
theorem C05_norm_eq (r : QReg ℝ) :
    r.getAbsolute = ∑ i ∈ Finset.range r.psi.size, (bufFn r.psi i).normSq ∧
    (WF r → r.getAbsolute = Spec.normSqSum r.qNum (bufFn r.psi)) :=
  ⟨nrm_eq_sum r, nrm_eq_normSqSum r⟩

/-! ### normalisation and collapse -/

/-- `normalize` turns any well-formed register of squared norm at most 1 into a valid one -/
theorem C05_normalize (r : QReg ℝ) (hwf : WF r) (h1 : nrm r ≤ 1) :
    WF r.normalize ∧ (1 - RegConsts.close) ^ 2 ≤ nrm r.normalize ∧ nrm r.normalize ≤ 1 :=
  normalize_inv r hwf h1

/-- a norm of 1 or more is left as it is (so the hypothesis `nrm r ≤ 1` above is needed) -/
theorem C05_normalize_above_one (r : QReg ℝ) (h : 1 ≤ nrm r) : r.normalize = r :=
  normalize_above_one r h

/-- e.g. the 1-qubit vector `(2, 0)`: well-formed, squared norm 4, unchanged by `normalize` -/
example : WF (qubitReg 2 0) ∧ nrm (qubitReg 2 0) = 4 ∧ (qubitReg 2 0).normalize = qubitReg 2 0 := by
  have h : nrm (qubitReg 2 0) = 4 := by rw [qubitReg_nrm]; norm_num
  exact ⟨qubitReg_wf 2 0, h, C05_normalize_above_one _ (by rw [h]; norm_num)⟩

/-- zeroing amplitudes cannot increase the norm and keeps the register well-formed -/
theorem C05_collapse (r : QReg ℝ) (d m : Nat) (hwf : WF r) :
    nrm (r.collapseMask d m) ≤ nrm r ∧ WF (r.collapseMask d m) :=
  ⟨nrm_collapse_le r d m, collapse_wf r d m hwf⟩

/-! ### each public operation keeps the register valid -/

/-- construction: exactly norm 1 -/
theorem C05_new (n s : Nat) :
    Inv (QReg.withState (R := ℝ) n s) ∧ nrm (QReg.withState (R := ℝ) n s) = 1 :=
  ⟨withState_inv n s, nrm_withState n s⟩

/-- an index of non-zero amplitude is a possible draw, whatever qubits are measured (this is how
the hypotheses `hposs` below are met: `WeightedIndex` only returns indices of positive weight) -/
theorem C05_possible (r : QReg ℝ) (mask d : Nat) (hp : bufFn r.psi d ≠ 0) :
    0 < nrm (r.collapseMask d (mask &&& r.qMask)) :=
  nrm_collapse_pos_of_ne r d _ hp

/-- measurement (any mask; any drawn index that is possible, if a draw takes place) -/
theorem C05_measure (r : QReg ℝ) (mask d : Nat) (h : Inv r)
    (hposs : mask &&& r.qMask ≠ 0 → 0 < nrm (r.collapseMask d (mask &&& r.qMask))) :
    Inv (r.measureMask mask d).1 :=
  measure_inv r mask d h hposs

/-- after a measurement of at least one qubit with a possible draw the squared norm is exactly 1,
whatever it was before (no hypothesis on the register at all) -/
theorem C05_measure_floor (r : QReg ℝ) (mask d : Nat) (hm : mask &&& r.qMask ≠ 0)
    (hposs : 0 < nrm (r.collapseMask d (mask &&& r.qMask))) :
    nrm (r.measureMask mask d).1 = 1 :=
  nrm_measure r mask d hm hposs

/-- reset to a basis state: exactly norm 1 -/
theorem C05_reset (r : QReg ℝ) (i : Nat) (hwf : WF r) : Inv (r.reset i) ∧ nrm (r.reset i) = 1 :=
  ⟨reset_inv r hwf i, nrm_reset r hwf i⟩

/-- resizing: growing keeps the norm, shrinking gives the fresh `|0…0>` register -/
theorem C05_setNum (r : QReg ℝ) (n : Nat) (h : Inv r) :
    Inv (r.setNum n) ∧ (r.qNum ≤ n → nrm (r.setNum n) = nrm r) ∧
      (n < r.qNum → r.setNum n = QReg.new n) :=
  ⟨setNum_inv r n h, fun hn => (setNum_grow_inv r n hn h.1).2, QReg.setNum_shrink r n⟩

/-- gate application: if every gate of the queue preserves the squared norm of `n`-qubit states
and keeps the amplitudes outside the register at zero, the register stays valid and its norm
is unchanged. (The hypothesis is per queue element: with it the buffer sweep `applyArr` equals
the functional sweep `MultiOp.apply`, `bufFn_applyArr_eq`.) -/
theorem C05_apply (r : QReg ℝ) (o : MultiOp ℝ)
    (hpres : ∀ g ∈ o, ∀ ψ : State ℝ, (∀ i, 2 ^ r.qNum ≤ i → ψ i = 0) →
      Spec.normSqSum r.qNum (g.apply ψ) = Spec.normSqSum r.qNum ψ ∧
        ∀ i, 2 ^ r.qNum ≤ i → g.apply ψ i = 0)
    (h : Inv r) : Inv (r.apply o) ∧ nrm (r.apply o) = nrm r :=
  ⟨apply_inv r o hpres h, (apply_wf_nrm r o hpres h.1).2⟩

/-- the same with the hypothesis stated on the buffer itself -/
theorem C05_apply_arr (r : QReg ℝ) (o : MultiOp ℝ)
    (hpres : nrm (r.apply o) = nrm r ∧ ∀ i, 2 ^ r.qNum ≤ i → bufFn (r.apply o).psi i = 0)
    (h : Inv r) : Inv (r.apply o) := by
  refine ⟨⟨?_, h.1.2.1, hpres.2⟩, ?_, ?_⟩
  · rw [QReg.apply_psi_size]; exact h.1.1
  · rw [hpres.1]; exact h.2.1
  · rw [hpres.1]; exact h.2.2

/-- the hypothesis of `C05_apply` can be met: flipping qubits of the register -/
theorem C05_apply_x (r : QReg ℝ) (a : Nat) (ha : a < 2 ^ r.qNum) (h : Inv r) :
    Inv (r.apply (Op.x a)) :=
  (C05_apply r (Op.x a) (opX_preserve r.qNum a ha) h).1

/-- `reset_by_mask` (measure the named qubits, flip those found in `|1>`); it draws unless the
mask names every qubit of the register (plain reset) or none -/
theorem C05_resetByMask (r : QReg ℝ) (mask d : Nat) (h : Inv r)
    (hposs : mask &&& r.qMask ≠ r.qMask → mask &&& r.qMask ≠ 0 →
      0 < nrm (r.collapseMask d (mask &&& r.qMask))) : Inv (r.resetByMask mask d) :=
  resetByMask_inv r mask d h hposs

/-- tensor product: the squared norms multiply (two unit vectors give a unit vector) -/
theorem C05_tensor (a b : QReg ℝ) (ha : WF a) (hb : WF b) :
    WF (a.tensorProd b) ∧ nrm (a.tensorProd b) = nrm a * nrm b :=
  ⟨tensorProd_WF a b ha hb, nrm_tensorProd a b ha hb⟩

/-- tensor product of two valid registers: well-formed, squared norm in `[(1 − 1e-9)⁴, 1]`,
exactly 1 when both factors have norm exactly 1 -/
theorem C05_tensor_inv (a b : QReg ℝ) (ha : Inv a) (hb : Inv b) :
    WF (a.tensorProd b) ∧ (1 - RegConsts.close) ^ 4 ≤ nrm (a.tensorProd b) ∧
      nrm (a.tensorProd b) ≤ 1 ∧ (nrm a = 1 → nrm b = 1 → nrm (a.tensorProd b) = 1) := by
  have h0 : (0 : ℝ) ≤ (1 - RegConsts.close) ^ 2 := sq_nonneg _
  rw [nrm_tensorProd a b ha.1 hb.1]
  refine ⟨tensorProd_WF a b ha.1 hb.1, ?_, mul_le_one₀ ha.2.2 (nrm_nonneg _) hb.2.2, ?_⟩
  · calc (1 - RegConsts.close) ^ 4 = (1 - RegConsts.close) ^ 2 * (1 - RegConsts.close) ^ 2 := by ring
      _ ≤ nrm a * nrm b := mul_le_mul ha.2.1 hb.2.1 h0 (le_trans h0 ha.2.1)
  · intro h1 h2; rw [h1, h2, mul_one]

/-! ### any history of operations -/

/-- every register reachable from a freshly constructed one by gate applications (addressed to
qubits of the register), measurements, `reset_by_mask`, resizing and resets — any number of
them, any masks, any possible drawn indices (the `hposs` fields of `Step.measure` and
`Step.resetByMask`) — is valid -/
theorem C05_reachable (r : QReg ℝ) (h : Reachable r) : Inv r := reachable_inv h

/-- … and its squared norm is exactly 1: `rescale` leaves no slack -/
theorem C05_reachable_unit (r : QReg ℝ) (h : Reachable r) : nrm r = 1 := reachable_nrm h

/-- in particular no amplitude lies outside the register's `2^n` basis states -/
theorem C05_inside (r : QReg ℝ) (h : Reachable r) : ∀ i, 2 ^ r.qNum ≤ i → bufFn r.psi i = 0 :=
  (reachable_inv h).1.2.2

/-- with tensor products of reachable registers as well: well-formed, squared norm in
`[(1 − 1e-9)^(2k), 1]` for some `k ≥ 1` (the number of factors), in particular positive -/
theorem C05_reachable_tensor (r : QReg ℝ) (h : ReachableT r) :
    ∃ k : Nat, 1 ≤ k ∧ WF r ∧ (1 - RegConsts.close) ^ (2 * k) ≤ nrm r ∧ nrm r ≤ 1 :=
  reachableT_bound h

/-- in fact: well-formed and of squared norm exactly 1 (in particular `Inv`) -/
theorem C05_reachable_tensor_unit (r : QReg ℝ) (h : ReachableT r) :
    WF r ∧ nrm r = 1 ∧ Inv r := by
  obtain ⟨hwf, h1⟩ := reachableT_nrm h
  refine ⟨hwf, h1, hwf, ?_, ?_⟩ <;> rw [h1]
  exact close_sq_le_one

/-! ### reported probabilities -/

/-- the reported probabilities of a valid register are non-negative and sum to 1 -/
theorem C05_probs (r : QReg ℝ) (h : Inv r) :
    (∀ p ∈ r.getProbabilities, 0 ≤ p) ∧ r.getProbabilities.sum = 1 :=
  ⟨getProbabilities_nonneg r, getProbabilities_sum r h.1 (ne_of_gt (inv_nrm_pos r h))⟩

/-- the same for any well-formed register of non-zero norm (e.g. a product register) -/
theorem C05_probs_of_pos (r : QReg ℝ) (hwf : WF r) (hpos : 0 < nrm r) :
    (∀ p ∈ r.getProbabilities, 0 ≤ p) ∧ r.getProbabilities.sum = 1 :=
  ⟨getProbabilities_nonneg r, getProbabilities_sum r hwf (ne_of_gt hpos)⟩

/-! ### the hypotheses can be met -/

/-- the state `(3/5, 4/5)` is valid; so is what a measurement, a bit flip, a reset leave -/
example : Inv demoReg := demoReg_inv
example : Inv (demoReg.measureMask 1 1).1 := C05_measure _ 1 1 demoReg_inv (fun _ => demoReg_pos_one)
example : nrm (demoReg.measureMask 1 1).1 = 1 :=
  C05_measure_floor _ 1 1 (by decide) demoReg_pos_one
example : Inv (demoReg.resetByMask 1 1) := by
  apply C05_resetByMask _ 1 1 demoReg_inv
  intro h
  exact absurd rfl h
example : Inv (demoReg.apply (Op.x 1)) := C05_apply_x demoReg 1 (by decide) demoReg_inv
example : demoReg.getProbabilities.sum = 1 := (C05_probs _ demoReg_inv).2

/-- a history: build `|01>`, flip qubit 1, measure qubit 0 with draw 3, grow to 3 qubits, reset
qubit 1 (draw 3 again); both draws are possible because `|11>` carries the amplitude -/
example : Inv (((((QReg.withState (R := ℝ) 2 1).apply (Op.x 2)).measureMask 1 3).1.setNum 3).resetByMask 2 3)
    ∧ nrm (((((QReg.withState (R := ℝ) 2 1).apply (Op.x 2)).measureMask 1 3).1.setNum 3).resetByMask 2 3) = 1 := by
  have hx : GatesPreserve (QReg.withState (R := ℝ) 2 1).qNum (Op.x 2) :=
    opX_preserve 2 2 (by decide)
  have h1 : Reachable ((QReg.withState (R := ℝ) 2 1).apply (Op.x 2)) :=
    .step (.init 2 1) (.apply _ (Op.x 2) hx)
  -- the amplitude of `|11>` after building `|01>` and flipping qubit 1 is 1
  have hamp : bufFn ((QReg.withState (R := ℝ) 2 1).apply (Op.x 2)).psi 3 = 1 := by
    have hsz : 3 < (QReg.withState (R := ℝ) 2 1).psi.size := by
      rw [(QReg.withState_spec (R := ℝ) 2 1).1]; decide
    show bufFn ((SingleOp.ofAtom (Atom.x 2) : SingleOp ℝ).applyArr (QReg.withState 2 1).psi) 3 = 1
    rw [SingleOp.bufFn_applyArr _ _ 3 hsz, opX_apply, (QReg.withState_spec (R := ℝ) 2 1).2.2.2]
    rfl
  have ha1 : bufFn ((QReg.withState (R := ℝ) 2 1).apply (Op.x 2)).psi 3 ≠ 0 := by
    rw [hamp]
    intro h
    have := congrArg Cx.re h
    norm_num at this
  have h2 : Reachable (((QReg.withState (R := ℝ) 2 1).apply (Op.x 2)).measureMask 1 3).1 :=
    .step h1 (.measure _ 1 3 (fun _ => C05_possible _ 1 3 ha1))
  have ha2 := measure_drawn_ne_zero _ 1 3 ha1
  have h3 : Reachable ((((QReg.withState (R := ℝ) 2 1).apply (Op.x 2)).measureMask 1 3).1.setNum 3) :=
    .step h2 (.setNum _ 3)
  have ha3 : bufFn ((((QReg.withState (R := ℝ) 2 1).apply (Op.x 2)).measureMask 1 3).1.setNum 3).psi 3
      ≠ 0 := by
    have hq : (((QReg.withState (R := ℝ) 2 1).apply (Op.x 2)).measureMask 1 3).1.qNum = 2 :=
      measure_qNum _ 1 3
    rw [(QReg.setNum_grow _ 3 (by rw [hq]; decide) (reachable_inv h2).1.2.2).2.2.2 3, hq,
      if_pos (by decide)]
    exact ha2
  have h4 := Reachable.step h3 (.resetByMask _ 2 3 (fun _ _ => C05_possible _ 2 3 ha3))
  exact ⟨C05_reachable _ h4, C05_reachable_unit _ h4⟩

end Qvnt
