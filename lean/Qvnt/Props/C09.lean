/-
C09 — for every built-in gate name the interpreter accepts (upper- or lower-case, with any
number of leading `c`), a one-statement program applies the unitary that OpenQASM 2.0 /
qelib1.inc (or, for the qvnt extensions, the library's documentation) assigns to that name,
with the first argument(s) of a `c`-prefixed gate as controls and the parameters in the
written order.

MODEL objects: `Gates.process` (`gates::process`), `runArm` (the expanded `gate!` arms),
`ctorApply`, `Generated.gateTable` (regenerated from `gates.rs` on every run), `MultiOp.c`.
SPEC objects, written by hand in `Qvnt/Lemmas/GateNames.lean`:
* `tableNames`, `expectedBinding` — which macro arm and which constructor every name must be
  bound to (`sdg ↦ (dgr, s)`, `tdg ↦ (dgr, t)`, `rx ↦ (r 1, rx)`, `rxx ↦ (r 2, rxx)`, …);
* `nameExpr name regs args` — the operator-construction program an un-prefixed name stands for
  (`x ↦ x(m)`, `sdg ↦ s(m).dgr()`, `rx ↦ rx(a, m)`, `u2 ↦ u3(π/2, φ, λ, m)`, …, `m` = the OR of the
  register masks); its meaning is `Spec.denote` (documented matrix on each selected qubit, its
  adjoint for `sdg`/`tdg`, `RZ(λ)·RY(θ)·RZ(φ)` products for `u2`/`u3`, the QFT circuit);
* `regsOK name m` — the target mask has the shape the name wants (`m ≠ 0`, or exactly one / two
  bits), `paramCount name` — the number of parameters;
* `ctrlExpr ctrls e` — `e.c(mₖ)…c(m₁)`: the gate under the control masks `ctrls`.
Every theorem that mentions `Generated.gateTable` is proved from facts checked by `decide` over
the concrete list, so a changed table (a row bound to another constructor, a dropped `dgr`)
breaks the build instead of silently changing the statement.

KNOWN FINDING (D9, reported): `cu1` is built as the controlled `u1`, and the library's `u1(λ)` is
`RZ(λ) = diag(e^{-iλ/2}, e^{iλ/2})`; so `cu1(λ)` is the controlled RZ,
`diag(1, 1, e^{-iλ/2}, e^{iλ/2})`, and not qelib1.inc's `cu1(λ) = diag(1, 1, 1, e^{iλ})`: the two
differ by a relative phase on the control qubit, not by a global phase (e.g. `λ = π`:
`diag(1,1,-i,i)` against `CZ`). `C09_cu1_is_crz` states the model side of this: `cu1` and `crz`
build the same operator. (Uncontrolled, `u1(λ)` does agree with qelib1.inc up to a global phase:
`C09_qelib_u1`.)

WHAT IS PROVED AGAINST qelib1.inc (`Spec.qelib`): the fourteen one-qubit names
`x y z h s sdg t tdg rx ry rz u1 u2 u3` (`C09_qelib_*`, `C09_qelib_real`). NOT proved against the
qelib1.inc bodies: `cx cy cz ch ccx crz cu3 swap cswap` — for these the theorems here give "the
documented base matrix, applied where all control bits are 1" (`C09_controlled_spec`,
`C09_ctrl_block`), which is the textbook meaning of those names, but the identity with the
CX/U-decompositions of qelib1.inc is not formalised.
-/
import Qvnt.Lemmas.GateNames
import Qvnt.Props.C02
import Mathlib.Analysis.SpecialFunctions.Trigonometric.Basic

namespace Qvnt
open Qvnt.Spec Generated

/-! ### 1. the generated table is the expected one -/

/-- The prefix arm of `process` has exactly the text the model mirrors, and `macro_rules! gate` has no arm besides the seven
the model knows. (The seven arms themselves are no longer tied by their text: they are translated on every run and proved
equal to `runArm`, `Lemmas/GenGates`, `Props/Code/C09.lean`.) -/
theorem C09_arms_canonical :
    (Generated.prefixArmCanonical && Generated.noExtraArms) = true := by
  decide

/-- The table has exactly these names, in this order. -/
theorem C09_table_names :
    Generated.gateTable.map (·.lower) =
      ["x", "y", "z", "s", "sdg", "t", "tdg", "h", "qft", "rx", "ry", "rz", "rxx", "ryy", "rzz",
       "swap", "sqrt_swap", "i_swap", "sqrt_i_swap", "u1", "u2", "u3"] := by decide

/-- Every name is bound to the macro arm and the constructor the property prescribes; in
particular `sdg` / `tdg` go through the `dgr` arm with the constructors `s` / `t`. -/
theorem C09_table_binding :
    ∀ row ∈ Generated.gateTable, (row.arm, row.ctor) = expectedBinding row.lower := by decide

/-- The second spelling of every name is its upper-case form, character by character. -/
theorem C09_case_chars :
    ∀ row ∈ Generated.gateTable, row.upper.toList = row.lower.toList.map Char.toUpper := by decide

/-- The second spelling of every name is its upper-case form. -/
theorem C09_case : ∀ row ∈ Generated.gateTable, row.upper = row.lower.toUpper := by
  intro row hrow
  apply String.toList_inj.1
  rw [String.toUpper, String.toList_map]
  exact C09_case_chars row hrow

/-- No table name (in either spelling) is taken for a `c`-prefixed name, and looking a spelling
up finds its own row (no row shadows another). -/
theorem C09_table_lookup : ∀ row ∈ Generated.gateTable,
    isPrefixed row.lower = false ∧ isPrefixed row.upper = false ∧
    Generated.gateTable.find? (fun r => r.lower == row.lower || r.upper == row.lower) = some row ∧
    Generated.gateTable.find? (fun r => r.lower == row.upper || r.upper == row.upper) = some row := by
  decide

/-! ### 2. un-prefixed names -/

section uncontrolled
variable {R : Type} [AngleFns R] [Neg R]

/-- **What an un-prefixed name builds.** If `name` has the reading `e` for these registers and
parameters (so the number of parameters is right) and the OR of the register masks has the shape
the name wants, `gates::process` returns exactly what the construction program `e` returns: the
operator, or the panic of the constructor. -/
theorem C09_uncontrolled (name : String) (regs : List Nat) (args : List R) (e : OpExpr R)
    (h : nameExpr name regs args = some e) (hr : regsOK name (orMask regs) = true) :
    Gates.process name regs args =
      match OpExpr.build AngleFns.qftPhase e with
      | .ok o => .ok o
      | _ => .panic ("constructor " ++ (expectedBinding name).2) := by
  rw [process_name name regs args e h hr]
  rfl

/-- A target mask of the wrong shape is reported as `WrongRegNumber` with the number of selected
qubits (`0` when no qubit is selected). -/
theorem C09_wrong_regs (row : Row) (hrow : row ∈ Generated.gateTable) (regs : List Nat)
    (args : List R) (hr : regsOK row.lower (orMask regs) = false) :
    Gates.process row.lower regs args
      = .err (.wrongRegNumber row.lower (popcount (orMask regs))) := by
  rw [process_lower row hrow, expectedRes_wrongRegs _ _ _ _ hr]

/-- With a good target mask, a wrong number of parameters is reported as `WrongArgNumber`. -/
theorem C09_wrong_args (row : Row) (hrow : row ∈ Generated.gateTable) (regs : List Nat)
    (args : List R) (hr : regsOK row.lower (orMask regs) = true)
    (ha : args.length ≠ paramCount row.lower) :
    Gates.process row.lower regs args = .err (.wrongArgNumber row.lower args.length) := by
  rw [process_lower row hrow]
  apply expectedRes_wrongArgs _ _ _ _ hr
  have hk : row.lower ∈ tableNames := (mem_tableNames_iff _).2 ⟨row, hrow, rfl⟩
  cases hn : nameExpr row.lower regs args with
  | none => rfl
  | some e =>
    have := (nameExpr_isSome_iff hk regs args).1 (by rw [hn]; rfl)
    exact absurd this ha

omit [Neg R] in
/-- A table name with the right number of parameters has a reading. -/
theorem C09_reading_exists (row : Row) (hrow : row ∈ Generated.gateTable) (regs : List Nat)
    (args : List R) (ha : args.length = paramCount row.lower) :
    ∃ e, nameExpr row.lower regs args = some e := by
  have hk : row.lower ∈ tableNames := (mem_tableNames_iff _).2 ⟨row, hrow, rfl⟩
  exact Option.isSome_iff_exists.1 ((nameExpr_isSome_iff hk regs args).2 ha)

/-- **The upper-case spelling gives the same result** (the same operator; an error value differs
at most in the name it carries). -/
theorem C09_upper (row : Row) (hrow : row ∈ Generated.gateTable) (regs : List Nat)
    (args : List R) :
    Res.SameUpToName (Gates.process row.upper regs args) (Gates.process row.lower regs args) := by
  rw [process_upper row hrow, process_lower row hrow]
  exact expectedRes_sameUpToName _ _ _ _ _

/-- In particular both spellings succeed together, with the same operator. -/
theorem C09_upper_ok (row : Row) (hrow : row ∈ Generated.gateTable) (regs : List Nat)
    (args : List R) (o : MultiOp R) :
    Gates.process row.upper regs args = .ok o ↔ Gates.process row.lower regs args = .ok o :=
  (C09_upper row hrow regs args).ok_iff o

/-- A name that is neither `c`-prefixed nor in the table (in either spelling) is unknown. -/
theorem C09_unknown (name : String) (regs : List Nat) (args : List R)
    (hp : isPrefixed name = false)
    (hn : ∀ row ∈ Generated.gateTable, row.lower ≠ name ∧ row.upper ≠ name) :
    Gates.process name regs args = .err (.unknownGate name) := by
  rw [process_eq_go, go_base _ _ _ _ hp]
  have : Generated.gateTable.find? (fun row => row.lower == name || row.upper == name) = none := by
    rw [List.find?_eq_none]
    intro row hrow
    have := hn row hrow
    simp [this.1, this.2]
  rw [this]

end uncontrolled

section uncontrolled_spec
variable {R : Type} [CommRing R] [Consts R] [AngleFns R]

/-- **An un-prefixed name acts as the reference semantics of its reading says**: with 64-bit
register masks of the wanted shape and the right number of parameters the statement is accepted
(no error, no panic) and the operator refines `Spec.denote` of the reading — the documented
matrix on each selected qubit for `x y z s t h`, its adjoint for `sdg tdg`, the documented
rotation / two-qubit matrix for `rx … sqrt_i_swap`, `RZ(λ)` then `RY(θ)` then `RZ(φ)` for
`u3(θ,φ,λ)` and `u2(φ,λ) = u3(π/2,φ,λ)`, the QFT circuit for `qft`. -/
theorem C09_uncontrolled_spec (hs : 2 * (Consts.invSqrt2 : R) * Consts.invSqrt2 = 1)
    (hh : 2 * (Consts.half : R) = 1) (name : String) (regs : List Nat) (args : List R)
    (e : OpExpr R) (h : nameExpr name regs args = some e)
    (hr : regsOK name (orMask regs) = true) (hw : ∀ r ∈ regs, r < 2 ^ 64) :
    ∃ o gs supp, Gates.process name regs args = .ok o ∧
      OpExpr.build AngleFns.qftPhase e = .ok o ∧
      Spec.denote AngleFns.qftPhase e = .ok gs supp ∧ Refines o gs supp := by
  obtain ⟨hword, gs, supp, hd⟩ := nameExpr_good AngleFns.qftPhase h hr (orMask_lt regs hw)
  obtain ⟨o, hb, href⟩ := denote_ok_iff hs hh AngleFns.qftPhase e hword gs supp hd
  refine ⟨o, gs, supp, ?_, hb, hd, href⟩
  rw [C09_uncontrolled name regs args e h hr, hb]

end uncontrolled_spec

/-! ### 3. leading `c`s are controls -/

section controls
variable {R : Type} [Neg R] [AngleFns R]

/-- **One leading `c`**: the first register is the control mask, the rest of the name is
processed with the remaining registers, and the result is `.c(ctrl)` of the inner operator
(`InvalidControlMask` when refused); an inner arity / unknown-gate error is re-issued under the
full name (counting the control register), any other outcome is passed on. -/
theorem C09_ctrl (name : String) (hlen : 1 ≤ name.utf8ByteSize) (ctrl : Nat) (rest : List Nat)
    (args : List R) :
    Gates.process ("c" ++ name) (ctrl :: rest) args =
      match Gates.process name rest args with
      | .ok op =>
        (match MultiOp.c op ctrl with
         | some o => .ok o
         | none => .err (.invalidControlMask ctrl (MultiOp.actOn op)))
      | r => Res.relabel ("c" ++ name) r :=
  process_cPrefix false name hlen ctrl rest args

/-- The same for an upper-case `C`. -/
theorem C09_ctrl_upper (name : String) (hlen : 1 ≤ name.utf8ByteSize) (ctrl : Nat)
    (rest : List Nat) (args : List R) :
    Gates.process ("C" ++ name) (ctrl :: rest) args =
      match Gates.process name rest args with
      | .ok op =>
        (match MultiOp.c op ctrl with
         | some o => .ok o
         | none => .err (.invalidControlMask ctrl (MultiOp.actOn op)))
      | r => Res.relabel ("C" ++ name) r :=
  process_cPrefix true name hlen ctrl rest args

/-- A `c`-prefixed name without any register is a `WrongRegNumber` error. -/
theorem C09_no_arg (name : String) (hlen : 1 ≤ name.utf8ByteSize) (args : List R) :
    Gates.process ("c" ++ name) [] args = .err (.wrongRegNumber ("c" ++ name) 0) ∧
    Gates.process ("C" ++ name) [] args = .err (.wrongRegNumber ("C" ++ name) 0) :=
  ⟨process_cPrefix_nil false name hlen args, process_cPrefix_nil true name hlen args⟩

/-- **`k` leading `c`s take the first `k` registers as control masks**, the outermost `c` the
first one (`pre` lists the cases of the `c`s, `true` = `C`; `ctrlSteps` applies `C09_ctrl`'s
step once per `c`, innermost first). -/
theorem C09_ctrl_k (pre : List Bool) (name : String) (hlen : 1 ≤ name.utf8ByteSize)
    (ctrls : List Nat) (hk : ctrls.length = pre.length) (rest : List Nat) (args : List R) :
    Gates.process (prefixedName pre name) (ctrls ++ rest) args =
      ctrlSteps name pre ctrls (Gates.process name rest args) :=
  process_prefixed pre name hlen ctrls hk rest args

/-- **A table name under `k` leading `c`s builds `e.c(mₖ)…c(m₁)`**, `e` the reading of the base
name for the remaining registers: the statement succeeds exactly when that construction program
does, with the same operator. -/
theorem C09_controlled (pre : List Bool) (name : String) (ctrls : List Nat)
    (hk : ctrls.length = pre.length) (rest : List Nat) (args : List R) (e : OpExpr R)
    (h : nameExpr name rest args = some e) (hr : regsOK name (orMask rest) = true)
    (o : MultiOp R) :
    Gates.process (prefixedName pre name) (ctrls ++ rest) args = .ok o ↔
      OpExpr.build AngleFns.qftPhase (ctrlExpr ctrls e) = .ok o := by
  have hlen : 1 ≤ name.utf8ByteSize := tableNames_size name (nameExpr_mem h)
  rw [C09_ctrl_k pre name hlen ctrls hk rest args]
  apply Res.Matches.ok_iff
  exact ctrlSteps_matches AngleFns.qftPhase name pre ctrls hk
    (process_name_matches name rest args e h hr)

end controls

section controls_spec
variable {R : Type} [CommRing R] [Consts R] [AngleFns R]

/-- **Agreement with the reference semantics for controlled table names.** With 64-bit masks,
the statement `c…c name (ctrls ++ rest)` either is refused with `InvalidControlMask` exactly when
the reference semantics refuses (a control mask overlaps the qubits already used), or succeeds
with an operator that refines the base circuit with the control masks added to every gate: the
base gate's map where all control bits are 1, the identity elsewhere. It never panics. -/
theorem C09_controlled_spec (hs : 2 * (Consts.invSqrt2 : R) * Consts.invSqrt2 = 1)
    (hh : 2 * (Consts.half : R) = 1) (pre : List Bool) (name : String) (ctrls : List Nat)
    (hk : ctrls.length = pre.length) (rest : List Nat) (args : List R) (e : OpExpr R)
    (h : nameExpr name rest args = some e) (hr : regsOK name (orMask rest) = true)
    (hw : ∀ r ∈ rest, r < 2 ^ 64) (hc : ∀ m ∈ ctrls, m < 2 ^ 64) :
    match Gates.process (prefixedName pre name) (ctrls ++ rest) args,
          Spec.denote AngleFns.qftPhase (ctrlExpr ctrls e) with
    | .ok o, .ok gs supp => Refines o gs supp
    | .err (.invalidControlMask _ _), .refused => True
    | _, _ => False := by
  have hlen : 1 ≤ name.utf8ByteSize := tableNames_size name (nameExpr_mem h)
  obtain ⟨hword, _, _, _⟩ := nameExpr_good AngleFns.qftPhase h hr (orMask_lt rest hw)
  obtain ⟨o0, _, _, hp0, hb0, _, _⟩ := C09_uncontrolled_spec hs hh name rest args e h hr hw
  have hm : Res.Matches (Gates.process (prefixedName pre name) (ctrls ++ rest) args)
      (OpExpr.build AngleFns.qftPhase (ctrlExpr ctrls e)) := by
    rw [C09_ctrl_k pre name hlen ctrls hk rest args]
    apply ctrlSteps_matches AngleFns.qftPhase name pre ctrls hk
    rw [hp0, hb0]
    exact rfl
  have ha := build_agree hs hh AngleFns.qftPhase (ctrlExpr ctrls e) (ctrlExpr_wordOK ctrls e hc hword)
  have hnp := ctrlExpr_build_ne_panic AngleFns.qftPhase ctrls e (by rw [hb0]; simp)
  revert hm ha hnp
  generalize Gates.process (prefixedName pre name) (ctrls ++ rest) args = r
  generalize OpExpr.build AngleFns.qftPhase (ctrlExpr ctrls e) = b
  generalize Spec.denote AngleFns.qftPhase (ctrlExpr ctrls e) = d
  intro hm ha hnp
  cases b with
  | ok o =>
    cases r with
    | ok o' =>
      obtain rfl : o' = o := hm
      cases d with
      | ok gs supp => exact ha
      | refused => exact ha
      | panic => exact ha
    | err e' => cases e' <;> exact hm.elim
    | panic s => exact hm.elim
  | refused =>
    cases d with
    | ok gs supp => exact (ha : False).elim
    | panic => exact (ha : False).elim
    | refused =>
      cases r with
      | ok o' => exact hm.elim
      | panic s => exact hm.elim
      | err e' => cases e' <;> first | exact hm.elim | trivial
  | panic => exact (hnp rfl).elim

/-- **One control, amplitude form** (with `C02_block`): if `c name (ctrl :: rest)` succeeds then
`name rest` succeeds, and the controlled operator applies the base operator on the block of
basis states whose bits under `ctrl` are all 1 and leaves every other basis state untouched. The
same holds at every level of a several-`c` prefix (`name` may itself be a prefixed name, see
`C09_ctrl_k`); here `name` is a table name. -/
theorem C09_ctrl_block (hs : 2 * (Consts.invSqrt2 : R) * Consts.invSqrt2 = 1)
    (hh : 2 * (Consts.half : R) = 1) (upper : Bool) (name : String) (ctrl : Nat)
    (rest : List Nat) (args : List R) (e : OpExpr R)
    (h : nameExpr name rest args = some e) (hr : regsOK name (orMask rest) = true)
    (hw : ∀ r ∈ rest, r < 2 ^ 64) (o' : MultiOp R)
    (hp : Gates.process (cPrefix upper ++ name) (ctrl :: rest) args = .ok o') :
    ∃ op, Gates.process name rest args = .ok op ∧ MultiOp.c op ctrl = some o' ∧
      ∀ ψ : State R, o'.apply ψ = Spec.ctrl ctrl (fun φ => op.apply φ) ψ := by
  have hlen : 1 ≤ name.utf8ByteSize := tableNames_size name (nameExpr_mem h)
  obtain ⟨hword, _, _, _⟩ := nameExpr_good AngleFns.qftPhase h hr (orMask_lt rest hw)
  obtain ⟨op, _, _, hp0, hb0, _, _⟩ := C09_uncontrolled_spec hs hh name rest args e h hr hw
  rw [process_cPrefix upper name hlen ctrl rest args, hp0] at hp
  have hc : MultiOp.c op ctrl = some o' := by
    simp only [ctrlStep] at hp
    cases hco : MultiOp.c op ctrl with
    | none => rw [hco] at hp; cases hp
    | some o'' => rw [hco] at hp; cases hp; rfl
  exact ⟨op, hp0, hc, fun ψ => C02_block hs hh AngleFns.qftPhase e hword op hb0 ctrl o' hc ψ⟩

end controls_spec

/-! ### 4. the known finding: `cu1` is the controlled RZ -/

section finding
variable {R : Type} [Neg R] [AngleFns R]

/-- **`cu1` builds the same operator as `crz`** for every argument list (the library's
`u1(λ, a)` is `rz(λ, a)`): so `cu1(λ)` is `diag(1, 1, e^{-iλ/2}, e^{iλ/2})`, which differs from
qelib1.inc's `cu1(λ) = diag(1, 1, 1, e^{iλ})` by a relative phase on the control qubit — not by
a global phase. This is the one name of the list for which C09 fails (finding D9). -/
theorem C09_cu1_is_crz (regs : List Nat) (args : List R) (o : MultiOp R) :
    Gates.process "cu1" regs args = .ok o ↔ Gates.process "crz" regs args = .ok o := by
  rw [show "cu1" = "c" ++ "u1" by decide, show "crz" = "c" ++ "rz" by decide]
  cases regs with
  | nil =>
    rw [(C09_no_arg "u1" (by decide) args).1, (C09_no_arg "rz" (by decide) args).1]
    simp
  | cons ctrl rest =>
    rw [C09_ctrl "u1" (by decide) ctrl rest args, C09_ctrl "rz" (by decide) ctrl rest args]
    have hin : ∀ op, Gates.process "u1" rest args = .ok op ↔
        Gates.process "rz" rest args = .ok op := u1_eq_rz rest args
    cases h1 : Gates.process "u1" rest args with
    | ok op =>
      rw [(hin op).1 h1]
    | err e1 =>
      cases h2 : Gates.process "rz" rest args with
      | ok op => rw [(hin op).2 h2] at h1; cases h1
      | err e2 => cases e1 <;> cases e2 <;> simp [Res.relabel]
      | panic s => cases e1 <;> simp [Res.relabel]
    | panic s1 =>
      cases h2 : Gates.process "rz" rest args with
      | ok op => rw [(hin op).2 h2] at h1; cases h1
      | err e2 => cases e2 <;> simp [Res.relabel]
      | panic s => simp [Res.relabel]

end finding

section finding_spec
variable {R : Type} [CommRing R] [Consts R] [AngleFns R]

/- FULL STATEMENT OF C09 FOR `cu1` (FALSE for the implementation, finding D9):

     ∃ o gs lam, Gates.process "cu1" [2^c, 2^t] [l] = .ok o ∧
       Spec.qelib "cu1" [l] [2^c, 2^t] = some gs ∧ Cx.normSq lam = 1 ∧
       ∀ ψ, actAll gs ψ = fun i => lam * o.apply ψ i

   qelib1.inc: `cu1(λ) a,b { u1(λ/2) a; cx a,b; u1(-λ/2) b; cx a,b; u1(λ/2) b; }`, which is
   `e^{-iλ/4}·diag(1, 1, 1, e^{iλ})` on (control, target) = (0,0), (0,1), (1,0), (1,1). What the
   interpreter builds is proved below: `diag(1, 1, e^{-iλ/2}, e^{iλ/2})`. The ratio of the entries
   at (0,0) and (1,0) is `1` in the first and `e^{iλ/2}` in the second, so no global phase relates
   them unless `e^{iλ/2} = 1`. Concrete counterexample: `qreg q[2]; cu1(pi) q[0],q[1];` gives
   `diag(1,1,-i,i)` instead of `CZ = diag(1,1,1,-1)` (up to a global phase). -/

/-- **Closest true statement for `cu1`**: `cu1(λ) c,t` is accepted and applies `RZ(λ) =
diag(e^{-iλ/2}, e^{iλ/2})` to the target on the basis states whose control bit is 1 — the
controlled RZ, not the controlled phase of qelib1.inc. -/
theorem C09_cu1_partial (hs : 2 * (Consts.invSqrt2 : R) * Consts.invSqrt2 = 1)
    (hh : 2 * (Consts.half : R) = 1) (c t : Nat) (hc : c < 64) (ht : t < 64) (hct : c ≠ t)
    (l : R) :
    ∃ o, Gates.process "cu1" [2 ^ c, 2 ^ t] [l] = .ok o ∧
      ∀ ψ : State R, o.apply ψ =
        Spec.ctrl (2 ^ c)
          (act1 (matRZ (AngleFns.halfPhase l).re (AngleFns.halfPhase l).im) (2 ^ t)) ψ := by
  have hlt : ∀ k, k < 64 → 2 ^ k < 2 ^ 64 := fun k hk => Nat.pow_lt_pow_right (by decide) hk
  have hspec := C09_controlled_spec hs hh [false] "u1" [2 ^ c] rfl [2 ^ t] [l] _ rfl
    (by rw [orMask_single, regsOK_of_some rfl, popcount_two_pow]; rfl)
    (by intro r hr; rw [List.mem_singleton.1 hr]; exact hlt t ht)
    (by intro r hr; rw [List.mem_singleton.1 hr]; exact hlt c hc)
  have hname : prefixedName [false] "u1" = "cu1" := by decide
  rw [hname, show [2 ^ c] ++ [2 ^ t] = [2 ^ c, 2 ^ t] from rfl] at hspec
  have hden : Spec.denote (R := R) AngleFns.qftPhase
      (ctrlExpr [2 ^ c] (.rot1 .u1 (AngleFns.halfPhase l) (orMask [2 ^ t])))
      = .ok [⟨2 ^ c, .one (matRZ (AngleFns.halfPhase l).re (AngleFns.halfPhase l).im) (2 ^ t)⟩]
          (2 ^ t ||| 2 ^ c) := by
    rw [orMask_single]
    show Spec.denote AngleFns.qftPhase (.c (2 ^ c) (.rot1 .u1 _ (2 ^ t))) = _
    rw [denote, denote_rot1_two_pow _ _ _ t ht]
    have : (2 : Nat) ^ t &&& 2 ^ c = 0 := two_pow_and_two_pow (Ne.symm hct)
    simp [this, matRot1]
  rw [hden] at hspec
  cases hp : Gates.process (R := R) "cu1" [2 ^ c, 2 ^ t] [l] with
  | ok o =>
    rw [hp] at hspec
    refine ⟨o, rfl, fun ψ => ?_⟩
    rw [(hspec : Refines o _ _).apply ψ]
    rfl
  | err e => rw [hp] at hspec; cases e <;> exact (hspec : False).elim
  | panic s => rw [hp] at hspec; exact (hspec : False).elim

end finding_spec

/-! ### 5. the one-qubit standard gates against their qelib1.inc definitions

`AgreesWithQelib name args k`: the statement `name(args) q[k]` is accepted, `Spec.qelib` has a
circuit for it (the body of the qelib1.inc definition over `U(θ,φ,λ) = Rz(φ)Ry(θ)Rz(λ)`), and the
two are the same map up to one global phase of modulus 1. `StdAngles R` collects what is needed
of the half-angle phases at the special angles `0, π, ±π/2, ±π/4` (`C09_stdAngles_real`: true of
`cos`, `sin` over the reals). Not covered here: the two-qubit definitions `cx cz cy ch swap ccx
cswap crz cu1 cu3` (for these `C09_controlled_spec` gives the controlled base matrix; see the
header for `cu1`). -/

section qelib
variable {R : Type} [CommRing R] [Div R] [Consts R] [ExprFns R] [AngleFns R]

variable (std : StdAngles R) (hh : 2 * (Consts.half : R) = 1) (k : Nat) (hk : k < 64)
include std hh hk

/-- `x` = `U(π,0,π)` = `-i·X` -/
theorem C09_qelib_x : AgreesWithQelib (R := R) "x" [] k :=
  qelib_one std hh "x" [] k hk _ matX _ _ _ ⟨0, -1⟩ rfl
    (by rw [regsOK_of_none rfl]; simp)
    (by rw [orMask_single]; exact denote_g1_two_pow _ .x k hk) rfl (matU_x std)
    (by simp [Cx.normSq])

/-- `y` = `U(π,π/2,π/2)` = `-i·Y` -/
theorem C09_qelib_y : AgreesWithQelib (R := R) "y" [] k :=
  qelib_one std hh "y" [] k hk _ matY _ _ _ ⟨0, -1⟩ rfl
    (by rw [regsOK_of_none rfl]; simp)
    (by rw [orMask_single]; exact denote_g1_two_pow _ .y k hk) rfl (matU_y std)
    (by simp [Cx.normSq])

/-- `z` = `u1(π)` = `-i·Z` -/
theorem C09_qelib_z : AgreesWithQelib (R := R) "z" [] k :=
  qelib_one std hh "z" [] k hk _ matZ _ _ _ ⟨0, -1⟩ rfl
    (by rw [regsOK_of_none rfl]; simp)
    (by rw [orMask_single]; exact denote_g1_two_pow _ .z k hk) rfl (matU_z std)
    (by simp [Cx.normSq])

/-- `h` = `u2(0,π)` = `-i·H` -/
theorem C09_qelib_h : AgreesWithQelib (R := R) "h" [] k :=
  qelib_one std hh "h" [] k hk _ matH _ _ _ ⟨0, -1⟩ rfl
    (by rw [regsOK_of_none rfl]; simp)
    (by rw [orMask_single]; exact denote_g1_two_pow _ .h k hk) rfl (matU_h std)
    (by simp [Cx.normSq])

/-- `s` = `u1(π/2)` = `e^{-iπ/4}·S` -/
theorem C09_qelib_s : AgreesWithQelib (R := R) "s" [] k :=
  qelib_one std hh "s" [] k hk _ matS _ _ _ ⟨Consts.invSqrt2, -Consts.invSqrt2⟩ rfl
    (by rw [regsOK_of_none rfl]; simp)
    (by rw [orMask_single]; exact denote_g1_two_pow _ .s k hk) rfl (matU_s std)
    (by simp only [Cx.normSq]; linear_combination std.hs)

/-- `sdg` = `u1(-π/2)` = `e^{iπ/4}·S†` -/
theorem C09_qelib_sdg : AgreesWithQelib (R := R) "sdg" [] k :=
  qelib_one std hh "sdg" [] k hk _ (Mat2.adj matS) _ _ _ ⟨Consts.invSqrt2, Consts.invSqrt2⟩ rfl
    (by rw [regsOK_of_none rfl]; simp)
    (by rw [orMask_single]; exact denote_dgr_g1_two_pow _ .s k hk) rfl (matU_sdg std)
    (by simp only [Cx.normSq]; linear_combination std.hs)

/-- `t` = `u1(π/4)` = `e^{-iπ/8}·T` -/
theorem C09_qelib_t : AgreesWithQelib (R := R) "t" [] k :=
  qelib_one std hh "t" [] k hk _ matT _ _ _ _ rfl
    (by rw [regsOK_of_none rfl]; simp)
    (by rw [orMask_single]; exact denote_g1_two_pow _ .t k hk) rfl (matU_t std)
    (by simp only [Cx.normSq, Cx.conj_re, Cx.conj_im]; linear_combination std.unit _)

/-- `tdg` = `u1(-π/4)` = `e^{iπ/8}·T†` -/
theorem C09_qelib_tdg : AgreesWithQelib (R := R) "tdg" [] k :=
  qelib_one std hh "tdg" [] k hk _ (Mat2.adj matT) _ _ _ _ rfl
    (by rw [regsOK_of_none rfl]; simp)
    (by rw [orMask_single]; exact denote_dgr_g1_two_pow _ .t k hk) rfl (matU_tdg std)
    (std.unit _)

/-- `rx(θ)` = `U(θ,-π/2,π/2)` = `RX(θ)` exactly -/
theorem C09_qelib_rx (θ : R) : AgreesWithQelib "rx" [θ] k :=
  qelib_one std hh "rx" [θ] k hk _ _ _ _ _ 1 rfl
    (by rw [regsOK_of_some rfl, popcount_two_pow]; rfl)
    (by rw [orMask_single]; exact denote_rot1_two_pow _ .rx _ k hk) rfl
    (by rw [matU_rx std θ]; exact (Mat2.one_smul _).symm)
    (by simp [Cx.normSq])

/-- `ry(θ)` = `U(θ,0,0)` = `RY(θ)` exactly -/
theorem C09_qelib_ry (θ : R) : AgreesWithQelib "ry" [θ] k :=
  qelib_one std hh "ry" [θ] k hk _ _ _ _ _ 1 rfl
    (by rw [regsOK_of_some rfl, popcount_two_pow]; rfl)
    (by rw [orMask_single]; exact denote_rot1_two_pow _ .ry _ k hk) rfl
    (by rw [matU_ry std θ]; exact (Mat2.one_smul _).symm)
    (by simp [Cx.normSq])

/-- `rz(φ)` = `u1(φ)` = `U(0,0,φ)` = `RZ(φ)` exactly -/
theorem C09_qelib_rz (φ : R) : AgreesWithQelib "rz" [φ] k :=
  qelib_one std hh "rz" [φ] k hk _ _ _ _ _ 1 rfl
    (by rw [regsOK_of_some rfl, popcount_two_pow]; rfl)
    (by rw [orMask_single]; exact denote_rot1_two_pow _ .rz _ k hk) rfl
    (by rw [matU_rz std φ]; exact (Mat2.one_smul _).symm)
    (by simp [Cx.normSq])

/-- `u1(λ)` = `U(0,0,λ)` = `RZ(λ)` exactly (the library documents `u1` as equivalent to `RZ`) -/
theorem C09_qelib_u1 (l : R) : AgreesWithQelib "u1" [l] k :=
  qelib_one std hh "u1" [l] k hk _ _ _ _ _ 1 rfl
    (by rw [regsOK_of_some rfl, popcount_two_pow]; rfl)
    (by rw [orMask_single]; exact denote_rot1_two_pow _ .u1 _ k hk) rfl
    (by rw [matU_rz std l]; exact (Mat2.one_smul _).symm)
    (by simp [Cx.normSq])

/-- `u3(θ,φ,λ)` = `U(θ,φ,λ)`: the same three rotations, exactly -/
theorem C09_qelib_u3 (θ φ l : R) : AgreesWithQelib "u3" [θ, φ, l] k :=
  qelib_u std hh "u3" [θ, φ, l] k hk _ _ _ _ _ _ rfl
    (by rw [regsOK_of_some rfl, popcount_two_pow]; rfl) rfl ⟨rfl, rfl, rfl⟩

/-- `u2(φ,λ)` = `U(π/2,φ,λ)`, exactly -/
theorem C09_qelib_u2 (φ l : R) : AgreesWithQelib "u2" [φ, l] k :=
  qelib_u std hh "u2" [φ, l] k hk _ _ _ _ _ _ rfl
    (by rw [regsOK_of_some rfl, popcount_two_pow]; rfl) rfl ⟨std.quarter, rfl, rfl⟩

end qelib

/-- **The hypotheses `StdAngles` hold over the reals** for `halfPhase a = (cos(a/2), sin(a/2))`,
`FRAC_PI_2`'s half-angle phase `(cos(π/4), sin(π/4))`, `pi = π` and `FRAC_1_SQRT_2 = √2/2`. -/
theorem C09_stdAngles_real [Consts ℝ] [ExprFns ℝ] [AngleFns ℝ]
    (hpi : (ExprFns.pi : ℝ) = Real.pi)
    (hhalf : ∀ a : ℝ, AngleFns.halfPhase a = ⟨Real.cos (a / 2), Real.sin (a / 2)⟩)
    (hquarter : (AngleFns.quarter : Cx ℝ) = ⟨Real.cos (Real.pi / 4), Real.sin (Real.pi / 4)⟩)
    (hinv : (Consts.invSqrt2 : ℝ) = Real.sqrt 2 / 2) : StdAngles ℝ where
  hs := by
    rw [hinv]
    have := Real.mul_self_sqrt (show (0 : ℝ) ≤ 2 by norm_num)
    nlinarith
  unit := by
    intro a
    rw [hhalf]
    have := Real.cos_sq_add_sin_sq (a / 2)
    dsimp only
    nlinarith
  zero := by rw [hhalf]; simp
  pi := by rw [hhalf, hpi]; simp
  piHalf := by
    rw [hhalf, hpi, hinv]
    have : Real.pi / Spec.two / 2 = Real.pi / 4 := by simp only [Spec.two]; ring
    rw [this, Real.cos_pi_div_four, Real.sin_pi_div_four]
  neg := by
    intro a
    rw [hhalf, hhalf, neg_div, Real.cos_neg, Real.sin_neg]
    rfl
  piQuarter := by
    rw [hhalf, hpi, hinv]
    have h8 : Real.pi / Spec.four / 2 = Real.pi / 8 := by simp only [Spec.four, Spec.two]; ring
    rw [h8]
    have h4 : Real.pi / 4 = 2 * (Real.pi / 8) := by ring
    have hc := Real.cos_pi_div_four
    have hs := Real.sin_pi_div_four
    rw [h4, Real.cos_two_mul] at hc
    rw [h4, Real.sin_two_mul] at hs
    have h1 := Real.cos_sq_add_sin_sq (Real.pi / 8)
    ext
    · simp only [Cx.mul_re]; nlinarith
    · simp only [Cx.mul_im]; nlinarith
  quarter := by
    rw [hquarter, hhalf, hpi]
    have : Real.pi / Spec.two / 2 = Real.pi / 4 := by simp only [Spec.two]; ring
    rw [this]

/-- **Over the reals** (with `halfPhase a = (cos(a/2), sin(a/2))`, `pi = π`, `1/√2 = √2/2`,
`0.5 = 1/2`): every one-qubit standard gate `x y z h s sdg t tdg rx ry rz u1 u2 u3`, applied to
qubit `k < 64`, is the same map as its qelib1.inc definition up to one global phase. -/
theorem C09_qelib_real [Consts ℝ] [ExprFns ℝ] [AngleFns ℝ]
    (hpi : (ExprFns.pi : ℝ) = Real.pi)
    (hhalf : ∀ a : ℝ, AngleFns.halfPhase a = ⟨Real.cos (a / 2), Real.sin (a / 2)⟩)
    (hquarter : (AngleFns.quarter : Cx ℝ) = ⟨Real.cos (Real.pi / 4), Real.sin (Real.pi / 4)⟩)
    (hinv : (Consts.invSqrt2 : ℝ) = Real.sqrt 2 / 2) (hhf : (Consts.half : ℝ) = 1 / 2)
    (k : Nat) (hk : k < 64) :
    (∀ name ∈ ["x", "y", "z", "h", "s", "sdg", "t", "tdg"], AgreesWithQelib (R := ℝ) name [] k) ∧
    (∀ θ : ℝ, AgreesWithQelib "rx" [θ] k ∧ AgreesWithQelib "ry" [θ] k ∧
      AgreesWithQelib "rz" [θ] k ∧ AgreesWithQelib "u1" [θ] k) ∧
    (∀ φ l : ℝ, AgreesWithQelib "u2" [φ, l] k) ∧
    (∀ θ φ l : ℝ, AgreesWithQelib "u3" [θ, φ, l] k) := by
  have std := C09_stdAngles_real hpi hhalf hquarter hinv
  have hh : 2 * (Consts.half : ℝ) = 1 := by rw [hhf]; norm_num
  refine ⟨?_, fun θ => ⟨C09_qelib_rx std hh k hk θ, C09_qelib_ry std hh k hk θ,
    C09_qelib_rz std hh k hk θ, C09_qelib_u1 std hh k hk θ⟩,
    fun φ l => C09_qelib_u2 std hh k hk φ l, fun θ φ l => C09_qelib_u3 std hh k hk θ φ l⟩
  intro name hn
  simp only [List.mem_cons, List.not_mem_nil, or_false] at hn
  rcases hn with rfl | rfl | rfl | rfl | rfl | rfl | rfl | rfl
  · exact C09_qelib_x std hh k hk
  · exact C09_qelib_y std hh k hk
  · exact C09_qelib_z std hh k hk
  · exact C09_qelib_h std hh k hk
  · exact C09_qelib_s std hh k hk
  · exact C09_qelib_sdg std hh k hk
  · exact C09_qelib_t std hh k hk
  · exact C09_qelib_tdg std hh k hk

/-! ### examples (non-vacuity) -/

/-- the readings of `sdg` and `u2` -/
example [AngleFns Int] : nameExpr (R := Int) "sdg" [1, 4] [] = some (.dgr (.g1 .s 5)) := rfl
example [AngleFns Int] (φ l : Int) : nameExpr (R := Int) "u2" [2] [φ, l]
    = some (.u3 AngleFns.quarter (AngleFns.halfPhase φ) (AngleFns.halfPhase l) 2) := rfl

/-- `ccx a b t` (either case): one `X` kernel on `t` controlled by `a` and `b`;
`cx` with the control among the targets is refused; a `c`-prefixed name without registers and an
unknown name are errors -/
example : (@Gates.process Int _ demoAngles "ccx" [1, 2, 4] []).shape = some [(4, 3)] := by decide
example : (@Gates.process Int _ demoAngles "CCX" [1, 2, 4] []).shape = some [(4, 3)] := by decide
example : (@Gates.process Int _ demoAngles "cCx" [1, 2, 4] []).shape = some [(4, 3)] := by decide
example : (match @Gates.process Int _ demoAngles "cx" [1, 1] [] with
    | .err (.invalidControlMask 1 1) => true | _ => false) = true := by decide
example : (match @Gates.process Int _ demoAngles "cx" [] [] with
    | .err (.wrongRegNumber "cx" 0) => true | _ => false) = true := by decide
example : (match @Gates.process Int _ demoAngles "ccx" [1, 2] [] with
    | .err (.wrongRegNumber "ccx" 2) => true | _ => false) = true := by decide
example : (match @Gates.process Int _ demoAngles "cnot" [1, 2] [] with
    | .err (.unknownGate "cnot") => true | _ => false) = true := by decide

end Qvnt
