/-
C19 — concurrent use of registers neither deadlocks nor changes results.

MODEL objects (`Qvnt/Model/Pool.lean`): the shared pool wrapper `global_install` of
`src/threads.rs` as a transition system. A `State` is the size of the stored pool (`none`
before first use), for every caller thread its stack of `global_install` calls in progress
(a caller that is a worker of the user's own pool may start another call while it waits inside
`install`), and the tasks not yet started. `Step h` is one atomic action of one thread — which
thread moves next, and who wins a contended lock, is arbitrary; `Reachable h` starts from any
number of idle threads, any stored pool and any list of pending calls with arbitrary thread
counts and job lengths. `h = false` is the code after the repair (no lock held while waiting in
`install`), `h = true` the code before it. `AllDone`: every call has returned, nothing pending.
`Pool.measure` is defined in `Qvnt/Lemmas/PoolLemmas.lean`. A run is a sequence of states
`run : Nat → State` whose consecutive states are related by `Step`.

The "does not change results" half is C08 (the result of a sweep does not depend on how the
pool splits and schedules it, hence not on the size of the pool it is installed in).
-/
import Qvnt.Lemmas.PoolLemmas
import Qvnt.Lemmas.PoolTrace

namespace Qvnt
open Qvnt.Pool

/-- **The lock is used correctly.** In every reachable state at most one call holds the write
lock, and while one does, nobody holds a read lock. -/
theorem C19_lock_ok (s : State) (hr : Reachable false s) : s.LockOK false :=
  lockOK_reachable hr

/-- **Whoever holds the lock is not waiting for anything.** In every reachable state a call
that holds the read or the write lock is the innermost (top, index 0) call of its thread —
nothing is ever started on top of a lock holder — and its next step is enabled. -/
theorem C19_holder_on_top (s : State) (hr : Reachable false s) (t i : Nat) (st : List Frame)
    (f : Frame) (ht : s.threads[t]? = some st) (hf : st[i]? = some f)
    (hh : (f.holdsRead false || f.holdsWrite) = true) :
    i = 0 ∧ ∃ r, stepFrame false s f = some r :=
  ⟨holder_top ((inv_reachable hr).1 st (List.mem_of_getElem? ht)) hf hh, holder_steps hh⟩

/-- Below the innermost call of a thread every call is waiting inside `install`. -/
theorem C19_nested_calls_wait (s : State) (hr : Reachable false s) (t i : Nat)
    (st : List Frame) (f : Frame) (ht : s.threads[t]? = some st) (hf : st[i + 1]? = some f) :
    ∃ w, f.pc = .installing w := by
  have h := (inv_reachable hr).1 st (List.mem_of_getElem? ht)
  cases st with
  | nil => simp at hf
  | cons x xs =>
    rw [List.getElem?_cons_succ] at hf
    exact h f (List.mem_of_getElem? hf)

/-- **No deadlock.** A reachable state is never stuck: either every call has returned and
nothing is pending, or some thread can make a step. -/
theorem C19_progress (s : State) (hr : Reachable false s) :
    AllDone s ∨ ∃ s', Step false s s' :=
  progress_of_inv (inv_reachable hr)

/-- **Every step uses up the measure** `Pool.measure` (pending tasks weighted by `job + 9`,
calls in progress by the number of steps they still have to take). This holds from every
state, reachable or not. -/
theorem C19_terminates : ∃ μ : State → Nat, ∀ s s', Step false s s' → μ s' < μ s :=
  ⟨Pool.measure, fun _ _ hst => measure_step hst⟩

/-- the same, naming the measure -/
theorem C19_measure_decreases (s s' : State) (hst : Step false s s') :
    Pool.measure s' < Pool.measure s := measure_step hst

/-- **Every call returns.** Whatever the scheduler does from a reachable state `s`: a run has
at most `Pool.measure s` steps (so there is no infinite run, no livelock), and a run that
cannot be continued has ended with every call returned and nothing pending. -/
theorem C19_every_call_returns (s : State) (hr : Reachable false s) (run : Nat → State)
    (n : Nat) (h0 : run 0 = s) (hrun : ∀ i, i < n → Step false (run i) (run (i + 1))) :
    n ≤ Pool.measure s ∧ ((∀ s', ¬ Step false (run n) s') → AllDone (run n)) := by
  constructor
  · have := measure_run run n hrun n (Nat.le_refl n)
    rw [h0] at this; omega
  · intro hstuck
    have hrn := reachable_run run n (h0 ▸ hr) hrun n (Nat.le_refl n)
    rcases progress_of_inv (inv_reachable hrn) with hd | ⟨s', hs'⟩
    · exact hd
    · exact absurd hs' (hstuck s')

/-- there is no infinite run, from any state -/
theorem C19_no_infinite_run (s : State) :
    ¬ ∃ run : Nat → State, run 0 = s ∧ ∀ i, Step false (run i) (run (i + 1)) := by
  intro ⟨run, h0, hrun⟩
  have := measure_run run (Pool.measure s + 1) (fun i _ => hrun i) _ (Nat.le_refl _)
  rw [h0] at this; omega

/-- and from every reachable state there is a run, of at most `Pool.measure s` steps, after
which every call has returned -/
theorem C19_can_return (s : State) (hr : Reachable false s) :
    ∃ n, n ≤ Pool.measure s ∧ ∃ run : Nat → State, run 0 = s ∧
      (∀ i, i < n → Step false (run i) (run (i + 1))) ∧ AllDone (run n) :=
  exists_run_of_inv (Pool.measure s) s (Nat.le_refl _) (inv_reachable hr)

/-- **What the implementation is seen doing is a run of this model.** The event log that the
`cfg(qvnt_verif)` stand-ins for the lock and the pool record in `src/threads.rs` (entries of
`global_install`, lock acquisitions and releases with the stored pool size they saw, `install`
begin / end; per thread, in the order they happened) is replayed on every check by
`Pool.conforms`. Whenever that check accepts a log, the log starts in an initial state of
`Reachable`, each of its events is zero, one or two moves of `Step false` — in particular no
`install` is entered while its caller holds the lock, no write lock is taken while anybody
reads, and every size read or written is the size the model holds — so every state the
implementation passed through is `Reachable false` (and all theorems above apply to it), and at
the end of the log every call has returned. -/
theorem C19_trace_sound (pool : Option Nat) (n : Nat) (log : List (Nat × Ev))
    (h : conforms pool n log = true) :
    Reachable false (initOf pool n log) ∧
      ∃ s, Steps false (initOf pool n log) s ∧ Reachable false s ∧ AllDone s :=
  conforms_sound pool n log h

/-- the same for a log that stops early (what a run that hangs leaves behind): the state after
any accepted prefix is reachable, hence not stuck (`C19_progress`) -/
theorem C19_trace_prefix (pool : Option Nat) (n : Nat) (log : List (Nat × Ev)) (s : State)
    (hlt : ∀ p ∈ log, p.1 < n) (hr : replay (initOf pool n log) log 0 = .ok s) :
    Reachable false s ∧ (AllDone s ∨ ∃ s', Step false s s') :=
  ⟨replay_prefix_reachable pool n log s hlt hr,
   progress_of_inv (inv_reachable (replay_prefix_reachable pool n log s hlt hr))⟩

/-- non-vacuity: a real log shape (first-use race of two threads with different sizes) is accepted -/
example : conforms none 2
    [(0, .call 2), (1, .call 3), (0, .readAcq), (1, .readAcq), (0, .readRel none), (1, .readRel none),
     (1, .writeAcq), (1, .writeRel (some 3)), (0, .writeAcq), (0, .writeRel (some 2)),
     (1, .readAcq), (0, .readAcq), (1, .readRel (some 2)), (0, .readRel (some 2)),
     (1, .installBegin), (0, .installBegin), (1, .installEnd), (0, .installEnd)] = true := by decide

/-- **The code before the repair deadlocks** (and the model can express it). With the read
guard kept across `install` this state is reachable: one caller thread — a worker of the
user's own pool — whose first call (2 threads, as the stored pool) waits inside `install`
holding the read lock, and on top of it a sibling task picked up meanwhile that asks for 3
threads and so needs the write lock. Not everything has returned, and no step is possible. -/
theorem C19_old_code_deadlocks :
    ∃ s : State, s = ⟨some 2, [[⟨3, .wantWrite, 0⟩, ⟨2, .installing 1, 1⟩]], []⟩ ∧
      Reachable true s ∧ ¬ AllDone s ∧ ∀ s', ¬ Step true s s' :=
  ⟨deadlockState, rfl, deadlock_reachable true, deadlock_not_done, deadlock_stuck⟩

/-- the lock discipline itself was respected by the old code too: the defect was the
deadlock, not a data race -/
theorem C19_old_code_lock_ok (s : State) (hr : Reachable true s) : s.LockOK true :=
  lockOK_reachable hr

/-- non-vacuity: the same nested situation is reachable after the repair, and there the
sibling task goes on (it takes the write lock) -/
example : Reachable false ⟨some 2, [[⟨3, .wantWrite, 0⟩, ⟨2, .installing 1, 1⟩]], []⟩ ∧
    Step false ⟨some 2, [[⟨3, .wantWrite, 0⟩, ⟨2, .installing 1, 1⟩]], []⟩
      ⟨some 2, [[⟨3, .writing, 0⟩, ⟨2, .installing 1, 1⟩]], []⟩ :=
  ⟨deadlock_reachable false,
    Step.top _ 0 ⟨3, .wantWrite, 0⟩ ⟨3, .writing, 0⟩ [⟨2, .installing 1, 1⟩] none rfl rfl⟩

/-- non-vacuity: the first-use race — two OS threads, no pool yet, both about to create it,
with different thread counts — is a reachable state -/
example : Reachable false ⟨none, [[⟨2, .wantWrite, 1⟩], [⟨3, .wantWrite, 1⟩]], []⟩ :=
  race_reachable false

/-- non-vacuity: the measure of that state, i.e. the bound on the steps still possible -/
example : Pool.measure ⟨none, [[⟨2, .wantWrite, 1⟩], [⟨3, .wantWrite, 1⟩]], []⟩ = 14 := by
  decide

end Qvnt
