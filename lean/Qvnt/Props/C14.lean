/-
C14 — register construction, tensor product and resizing are exact and size-consistent.

MODEL objects: `QReg.new`, `QReg.withState`, `QReg.tensorProd`, `QReg.setNum`,
`QReg.getProbabilities`, `QReg.getVReg`, `CReg.new`, `CReg.tensorProd`. Amplitudes are read
through `bufFn` (the buffer has `max (2^n) 8` cells, `MIN_BUFFER_LEN`; the cells at and above
`2^n` are padding). The register invariant `wf` used for neutrality and growth
(buffer length `max (2^n) 8`, `qMask = 2^n − 1`, padding cells zero) is established by the
constructors (`QReg.withState_wf`) and preserved by the product (`QReg.tensorProd_wf`).
The histogram observable is in `Props/C16`.
-/
import Qvnt.Lemmas.Regs14

namespace Qvnt

/-! ### construction -/

section construction
variable {R : Type} [Zero R] [One R]

/-- a new `n`-qubit register is the basis state it was asked for, index reduced mod `2^n` -/
theorem C14_new (n s : Nat) :
    (QReg.withState (R := R) n s).psi.size = max (2 ^ n) 8 ∧
    (QReg.withState (R := R) n s).qNum = n ∧
    (QReg.withState (R := R) n s).qMask = 2 ^ n - 1 ∧
    ∀ i, bufFn (QReg.withState (R := R) n s).psi i = if i = s % 2 ^ n then 1 else 0 :=
  QReg.withState_spec n s

theorem C14_new_zero (n : Nat) : QReg.new (R := R) n = QReg.withState n 0 :=
  QReg.new_eq_withState n

/-- 2 qubits, state 7 ≡ 3 (mod 4): amplitude 1 at index 3, 0 at index 7 and at index 0 -/
example : (bufFn (QReg.withState (R := Int) 2 7).psi 3).re = 1
    ∧ (bufFn (QReg.withState (R := Int) 2 7).psi 7).re = 0
    ∧ (bufFn (QReg.withState (R := Int) 2 7).psi 0).re = 0
    ∧ (QReg.withState (R := Int) 0 5).psi.size = 8 := by
  obtain ⟨h1, _, _, h4⟩ := C14_new (R := Int) 2 7
  obtain ⟨h0, _⟩ := C14_new (R := Int) 0 5
  rw [h4, h4, h4, h0]
  decide

end construction

/-! ### tensor product -/

section tensor
variable {R : Type} [Add R] [Sub R] [Mul R] [Zero R]

/-- the product is the tensor product, left factor in the low-order bits; sizes add -/
theorem C14_tensor (a b : QReg R) (ha : a.qMask = 2 ^ a.qNum - 1)
    (hb : b.qMask = 2 ^ b.qNum - 1) :
    let t := a.tensorProd b
    t.qNum = a.qNum + b.qNum ∧ t.qMask = 2 ^ (a.qNum + b.qNum) - 1 ∧
    t.psi.size = max (2 ^ (a.qNum + b.qNum)) 8 ∧
    ∀ i, bufFn t.psi i =
      if i < 2 ^ (a.qNum + b.qNum) then bufFn a.psi (i % 2 ^ a.qNum) * bufFn b.psi (i / 2 ^ a.qNum)
      else 0 :=
  QReg.tensorProd_spec a b ha hb

/-- `|1> ⊗ |10>` (1 qubit times 2 qubits) is `|101>` = basis state 5 of a 3-qubit register -/
example :
    let t := (QReg.withState (R := Int) 1 1).tensorProd (QReg.withState 2 2)
    t.qNum = 3 ∧ t.qMask = 7 ∧ t.psi.size = 8 ∧ (bufFn t.psi 5).re = 1 ∧ (bufFn t.psi 6).re = 0 := by
  obtain ⟨h1, h2, h3, h4⟩ := C14_tensor (QReg.withState (R := Int) 1 1) (QReg.withState 2 2) rfl rfl
  refine ⟨h1, h2, h3, ?_, ?_⟩
  · rw [h4]
    simp only [QReg.withState, QReg.bufFn_basisBuf]
    decide
  · rw [h4]
    simp only [QReg.withState, QReg.bufFn_basisBuf]
    decide

end tensor

section neutral
variable {R : Type} [CommRing R]

/-- the empty register is a left unit -/
theorem C14_neutral_left (a : QReg R)
    (wf : a.psi.size = max (2 ^ a.qNum) 8 ∧ a.qMask = 2 ^ a.qNum - 1 ∧
      ∀ i, 2 ^ a.qNum ≤ i → bufFn a.psi i = 0) :
    ((QReg.new 0).tensorProd a).psi = a.psi ∧ ((QReg.new 0).tensorProd a).qNum = a.qNum ∧
      ((QReg.new 0).tensorProd a).qMask = a.qMask :=
  QReg.tensorProd_new_left a wf

/-- the empty register is a right unit -/
theorem C14_neutral_right (a : QReg R)
    (wf : a.psi.size = max (2 ^ a.qNum) 8 ∧ a.qMask = 2 ^ a.qNum - 1 ∧
      ∀ i, 2 ^ a.qNum ≤ i → bufFn a.psi i = 0) :
    (a.tensorProd (QReg.new 0)).psi = a.psi ∧ (a.tensorProd (QReg.new 0)).qNum = a.qNum ∧
      (a.tensorProd (QReg.new 0)).qMask = a.qMask :=
  QReg.tensorProd_new_right a wf

/-- the invariant holds for every constructed register, e.g. a 2-qubit one -/
example : ((QReg.new 0).tensorProd (QReg.withState (R := Int) 2 3)).psi
    = (QReg.withState (R := Int) 2 3).psi :=
  (C14_neutral_left _ (QReg.withState_wf 2 3)).1

example : ((QReg.withState (R := Int) 0 0).tensorProd (QReg.new 0)).psi
    = (QReg.withState (R := Int) 0 0).psi :=
  (C14_neutral_right _ (QReg.withState_wf 0 0)).1

end neutral

/-! ### classical registers -/

/-- classical product: left factor in the low-order bits, sizes add. (Boundary remark: for
`a.qNum = 64`, `b.qNum = 0` the Rust `other.value << 64` overflows the shift — a panic in a debug
build, `<< 0` in a release build; the model shifts mathematically and `b.value = 0` there, so
the value is `a.value` in both the model and the release build.) -/
theorem C14_creg_tensor (a b : CReg) (ha : a.value < 2 ^ a.qNum) (hb : b.value < 2 ^ b.qNum)
    (hn : a.qNum + b.qNum ≤ 64) :
    (a.tensorProd b).qNum = a.qNum + b.qNum ∧
    (a.tensorProd b).qMask = 2 ^ (a.qNum + b.qNum) - 1 ∧
    (a.tensorProd b).value = a.value + b.value * 2 ^ a.qNum ∧
    (a.tensorProd b).value < 2 ^ (a.qNum + b.qNum) :=
  CReg.tensorProd_spec a b ha hb hn

/-- the empty classical register is neutral on both sides -/
theorem C14_creg_neutral (c : CReg)
    (wf : c.qNum ≤ 64 ∧ c.qMask = 2 ^ c.qNum - 1 ∧ c.value < 2 ^ c.qNum) :
    (CReg.new 0).tensorProd c = c ∧ c.tensorProd (CReg.new 0) = c :=
  ⟨CReg.tensorProd_new_left c wf, CReg.tensorProd_new_right c wf⟩

example : (CReg.withState 1 1).tensorProd (CReg.withState 2 2) = CReg.withState 3 5 := by decide
example : (CReg.new 0).tensorProd (CReg.withState 64 (2 ^ 64 - 1)) = CReg.withState 64 (2 ^ 64 - 1)
    ∧ (CReg.withState 64 (2 ^ 64 - 1)).tensorProd (CReg.new 0) = CReg.withState 64 (2 ^ 64 - 1) :=
  C14_creg_neutral _ (by decide)

/-! ### sizes of the observables -/

/-- `2^n` probabilities, for every `n` (including 0, 1, 2) -/
theorem C14_probs_length {R : Type} [Add R] [Mul R] [Zero R] [One R] [Div R] (r : QReg R) :
    r.getProbabilities.length = 2 ^ r.qNum :=
  QReg.getProbabilities_length r

/-- the virtual register has `n` entries -/
theorem C14_vreg_length {R : Type} (r : QReg R) (h : r.qMask = 2 ^ r.qNum - 1)
    (hn : r.qNum ≤ 64) : r.getVReg.bits.length = r.qNum :=
  QReg.getVReg_length r h hn

example : (QReg.new (R := Int) 0).getProbabilities.length = 1
    ∧ (QReg.new (R := Int) 1).getProbabilities.length = 2
    ∧ (QReg.new (R := Int) 2).getProbabilities.length = 4 :=
  ⟨C14_probs_length _, C14_probs_length _, C14_probs_length _⟩

example : (QReg.new (R := Int) 0).getVReg.bits = [] ∧ (QReg.new (R := Int) 2).getVReg.bits = [1, 2] := by
  decide

/-! ### resizing -/

section resize
variable {R : Type} [Zero R] [One R]

/-- growing adds qubits in `|0>`: the old amplitudes stay where they were (new high-order bits
all 0), every other amplitude is 0 -/
theorem C14_grow (r : QReg R) (n : Nat) (h : r.qNum ≤ n)
    (wf : r.psi.size = max (2 ^ r.qNum) 8 ∧ r.qMask = 2 ^ r.qNum - 1 ∧
      ∀ i, 2 ^ r.qNum ≤ i → bufFn r.psi i = 0) :
    (r.setNum n).qNum = n ∧ (r.setNum n).qMask = 2 ^ n - 1 ∧
    (r.setNum n).psi.size = max (2 ^ n) 8 ∧
    ∀ i, bufFn (r.setNum n).psi i = if i < 2 ^ r.qNum then bufFn r.psi i else 0 :=
  QReg.setNum_grow r n h wf.2.2

/-- shrinking yields the `|0…0>` register of the new size -/
theorem C14_shrink (r : QReg R) (n : Nat) (h : n < r.qNum) : r.setNum n = QReg.new n :=
  QReg.setNum_shrink r n h

/-- growing `|1>` (1 qubit) to 4 qubits gives basis state 1 of a 16-cell buffer -/
example : ((QReg.withState (R := Int) 1 1).setNum 4).psi.size = 16
    ∧ (bufFn ((QReg.withState (R := Int) 1 1).setNum 4).psi 1).re = 1
    ∧ (bufFn ((QReg.withState (R := Int) 1 1).setNum 4).psi 9).re = 0 := by
  obtain ⟨_, _, h3, h4⟩ := C14_grow (QReg.withState (R := Int) 1 1) 4 (by decide)
    (QReg.withState_wf 1 1)
  refine ⟨h3, ?_, ?_⟩
  · rw [h4]; simp only [QReg.withState, QReg.bufFn_basisBuf]; decide
  · rw [h4]; simp only [QReg.withState, QReg.bufFn_basisBuf]; decide

example : ((QReg.withState (R := Int) 3 5).setNum 0) = QReg.new 0 := C14_shrink _ 0 (by decide)

end resize

end Qvnt
