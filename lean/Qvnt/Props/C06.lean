/-
C06 — measurement projects the state onto the returned outcome.

MODEL objects: `QReg.measureMask r mask d` (the basis index `d` drawn by `WeightedIndex` is an
input), `QReg.collapseMask`, `QReg.normalize`, `CReg.withState`. Scalars are the reals
(`Lemmas/RealInst`: `sqrt` is `Real.sqrt`, the thresholds are `1e-15` and `1e-9`). Amplitudes are
read through `bufFn`; `nrm` is what `get_absolute` returns (sum of `|ψ_i|²` over the buffer).
`m' = mask &&& r.qMask` is the set of qubits actually measured; index `i` is *consistent* with
the draw `d` when `(i ^^^ d) &&& m' = 0`, i.e. `i` and `d` agree on every measured qubit.

FINDING (see `C06_zero`, `C06_zero_fails_degenerate`, `C06_zero_fails_rare`). "Every
amplitude inconsistent with the outcome is zero" holds only when the collapsed norm exceeds
`1e-15`. Otherwise `normalize` resets the register to `|0…0>` while `measure_mask` still returns
the drawn value. This happens for a draw of amplitude 0 (cannot be drawn) but also for a draw of
positive probability at most `1e-30`: the unit vector `(√(1 − 1e-32), 1e-16)` measured with draw
`1` returns `1` and leaves the register in `|0>`.
-/
import Qvnt.Lemmas.Measure

namespace Qvnt

/-! ### the classical result -/

/-- the returned value is the drawn index restricted to the measured qubits … -/
theorem C06_value (r : QReg ℝ) (mask d : Nat) (hq : r.qMask = 2 ^ r.qNum - 1)
    (hn : r.qNum ≤ 64) : (r.measureMask mask d).2.value = d &&& (mask &&& r.qMask) :=
  measure_value r mask d hq hn

/-- … so it has no bit outside the measured positions, and none outside the register -/
theorem C06_value_inside (r : QReg ℝ) (mask d : Nat) (hq : r.qMask = 2 ^ r.qNum - 1)
    (hn : r.qNum ≤ 64) :
    (r.measureMask mask d).2.value &&& (mask &&& r.qMask) = (r.measureMask mask d).2.value ∧
    (r.measureMask mask d).2.value &&& mask = (r.measureMask mask d).2.value ∧
    (r.measureMask mask d).2.value < 2 ^ r.qNum := by
  rw [C06_value r mask d hq hn]
  refine ⟨by rw [Nat.and_assoc, Nat.and_self], ?_, ?_⟩
  · rw [Nat.and_assoc, Nat.and_assoc, Nat.and_comm r.qMask mask, ← Nat.and_assoc mask mask,
      Nat.and_self]
  · have h1 : d &&& (mask &&& r.qMask) ≤ mask &&& r.qMask := Nat.and_le_right
    have h2 : mask &&& r.qMask ≤ r.qMask := Nat.and_le_right
    have hpos : 0 < 2 ^ r.qNum := Nat.pow_pos (by decide)
    omega

/-- the outcome had non-zero probability: if the drawn index has a non-zero amplitude (the
sampler never draws a cell of weight 0), the squared amplitudes consistent with the outcome have
a positive sum -/
theorem C06_possible (r : QReg ℝ) (mask d : Nat) (hd : d < r.psi.size)
    (hp : 0 < (bufFn r.psi d).normSq) : 0 < nrm (r.collapseMask d (mask &&& r.qMask)) :=
  nrm_collapse_pos r d _ hd hp

/-! ### empty and oversized masks -/

/-- measuring no qubit changes nothing and returns the all-zero classical register -/
theorem C06_empty (r : QReg ℝ) (mask d : Nat) (h : mask &&& r.qMask = 0) :
    (r.measureMask mask d).1 = r ∧ (r.measureMask mask d).2 = CReg.new r.qNum := by
  rw [measure_of_zero r mask d h]; exact ⟨rfl, rfl⟩

/-- mask bits beyond the register are ignored -/
theorem C06_beyond (r : QReg ℝ) (mask d : Nat) :
    r.measureMask mask d = r.measureMask (mask &&& r.qMask) d := by
  simp only [QReg.measureMask, Nat.and_assoc, Nat.and_self]

/-! ### the post-measurement state -/

/- The unconditional statement
   `∀ r mask d i, (i ^^^ d) &&& (mask &&& r.qMask) ≠ 0 → bufFn (r.measureMask mask d).1.psi i = 0`
   is FALSE (the two counterexamples below); `hbig` excludes the branch of `normalize` that resets
   the register. -/
/-- when the collapsed norm exceeds `1e-15`, every amplitude that disagrees with the draw on a
measured qubit is exactly zero afterwards -/
theorem C06_zero (r : QReg ℝ) (mask d : Nat)
    (hbig : RegConsts.tiny < Real.sqrt (nrm (r.collapseMask d (mask &&& r.qMask)))) :
    ∀ i, (i ^^^ d) &&& (mask &&& r.qMask) ≠ 0 → bufFn (r.measureMask mask d).1.psi i = 0 := by
  intro i hi
  obtain ⟨lam, _, h⟩ := measure_nondeg r mask d hbig
  rw [h i, if_pos hi, cx_scale_zero]

/-- counterexample 1: `|0>` measured with the (impossible) draw `1`: the collapsed buffer is all
zero, `normalize` resets to `|0>`, which disagrees with the returned value `1` -/
theorem C06_zero_fails_degenerate :
    let r := QReg.withState (R := ℝ) 1 0
    (0 ^^^ 1) &&& (1 &&& r.qMask) ≠ 0 ∧ bufFn (r.measureMask 1 1).1.psi 0 = 1 ∧
      (r.measureMask 1 1).2.value = 1 := by
  intro r
  have hq : r.qMask = 1 := rfl
  have hne : 1 &&& r.qMask ≠ 0 := by rw [hq]; decide
  have hzero : nrm (r.collapseMask 1 (1 &&& r.qMask)) = 0 := by
    rw [nrm_eq_sum]
    apply Finset.sum_eq_zero
    intro i _
    rw [bufFn_collapse, hq, (QReg.withState_spec (R := ℝ) 1 0).2.2.2 i]
    by_cases h0 : i = 0
    · subst h0; simp [normSq_zero]
    · simp [h0, normSq_zero]
  refine ⟨by rw [hq]; decide, ?_, ?_⟩
  · rw [measure_degenerate r 1 1 hne (by rw [hzero, Real.sqrt_zero]; exact le_of_lt tiny_pos)]
    apply bufFn_reset_zero
    rw [collapse_size, (QReg.withState_spec (R := ℝ) 1 0).1]; decide
  · rw [C06_value r 1 1 rfl (by decide), hq]; decide

/-- counterexample 2, a draw of positive probability: the unit vector `(√(1 − 1e-32), 1e-16)`
satisfies the register invariant, the draw `1` has probability `1e-32 > 0`, the returned value is
`1`, and afterwards the register is `|0>`: amplitude 1 at the inconsistent index 0 -/
theorem C06_zero_fails_rare :
    Inv rareReg ∧ nrm rareReg = 1 ∧ 0 < (bufFn rareReg.psi 1).normSq / nrm rareReg ∧
    (0 ^^^ 1) &&& (1 &&& rareReg.qMask) ≠ 0 ∧
    (rareReg.measureMask 1 1).2.value = 1 ∧ bufFn (rareReg.measureMask 1 1).1.psi 0 = 1 := by
  have hq : rareReg.qMask = 1 := rfl
  refine ⟨rareReg_inv, rareReg_nrm, ?_, by rw [hq]; decide, ?_, ?_⟩
  · rw [rareReg_nrm, div_one, rareReg, qubitReg_bufFn]
    simp only [Cx.normSq]
    unfold tinyAmp
    norm_num
  · rw [C06_value rareReg 1 1 rfl (by decide), hq]; decide
  · rw [measure_degenerate rareReg 1 1 (by rw [hq]; decide) rareReg_degenerate]
    apply bufFn_reset_zero
    rw [collapse_size]; decide

/-- the consistent amplitudes are all multiplied by one positive real number (1, or 1/norm):
their mutual ratios and their phases are unchanged -/
theorem C06_ratio (r : QReg ℝ) (mask d : Nat)
    (hbig : RegConsts.tiny < Real.sqrt (nrm (r.collapseMask d (mask &&& r.qMask)))) :
    ∃ lam : ℝ, 0 < lam ∧ ∀ i, (i ^^^ d) &&& (mask &&& r.qMask) = 0 →
      bufFn (r.measureMask mask d).1.psi i = (bufFn r.psi i).scale lam := by
  obtain ⟨lam, hlam, h⟩ := measure_nondeg r mask d hbig
  refine ⟨lam, hlam, fun i hi => ?_⟩
  rw [h i, if_neg (by rw [hi]; exact fun h => h rfl)]

/-! ### repeating the measurement -/

/-- after a (non-degenerate) measurement only indices that agree with the draw on the measured
qubits carry amplitude -/
theorem C06_support (r : QReg ℝ) (mask d : Nat)
    (hbig : RegConsts.tiny < Real.sqrt (nrm (r.collapseMask d (mask &&& r.qMask)))) (i : Nat)
    (hi : bufFn (r.measureMask mask d).1.psi i ≠ 0) :
    i &&& (mask &&& r.qMask) = d &&& (mask &&& r.qMask) := by
  rw [← xor_and_eq_zero_iff]
  exact Classical.not_not.1 (fun h => hi (C06_zero r mask d hbig i h))

/-- measuring the same qubits again returns the same classical register, whichever index of
non-zero amplitude is drawn the second time -/
theorem C06_repeat (r : QReg ℝ) (mask d d₂ : Nat)
    (hbig : RegConsts.tiny < Real.sqrt (nrm (r.collapseMask d (mask &&& r.qMask))))
    (hd₂ : bufFn (r.measureMask mask d).1.psi d₂ ≠ 0) :
    ((r.measureMask mask d).1.measureMask mask d₂).2 = (r.measureMask mask d).2 := by
  have hs := C06_support r mask d hbig d₂ hd₂
  by_cases h : mask &&& r.qMask = 0
  · rw [measure_of_zero _ mask d₂ (by rw [measure_qMask]; exact h), measure_qNum,
      measure_of_zero r mask d h]
  · rw [measure_of_ne _ mask d₂ (by rw [measure_qMask]; exact h), measure_qNum, measure_qMask,
      measure_of_ne r mask d h]
    simp only [hs]

/-! ### the hypotheses can be met: the state `(3/5, 4/5)` -/

/-- draw 1 on `(3/5, 4/5)`: the collapsed norm is `4/5 > 1e-15`; the result is `1`, the amplitude
of `|0>` becomes 0, and a second measurement returns `1` again -/
example : (demoReg.measureMask 1 1).2.value = 1 ∧ bufFn (demoReg.measureMask 1 1).1.psi 0 = 0 := by
  refine ⟨?_, C06_zero demoReg 1 1 demoReg_nondeg_one 0 (by decide)⟩
  rw [C06_value demoReg 1 1 rfl (by decide)]; rfl

example : ∃ lam : ℝ, 0 < lam ∧ bufFn (demoReg.measureMask 1 1).1.psi 1 = ⟨4 / 5 * lam, 0 * lam⟩ := by
  obtain ⟨lam, hl, h⟩ := C06_ratio demoReg 1 1 demoReg_nondeg_one
  exact ⟨lam, hl, by rw [h 1 (by decide), demoReg, qubitReg_bufFn]; rfl⟩

example : (demoReg.measureMask 0 1).1 = demoReg := (C06_empty demoReg 0 1 (by decide)).1
example : demoReg.measureMask 3 1 = demoReg.measureMask 1 1 := C06_beyond demoReg 3 1

end Qvnt
