/-
C06 — measurement projects the state onto the returned outcome.

MODEL objects: `QReg.measureMask r mask d` (the basis index `d` drawn by `WeightedIndex` is an
input), `QReg.collapseMask`, `QReg.rescale`, `CReg.withState`. Scalars are the reals
(`Lemmas/RealInst`: `sqrt` is `Real.sqrt`). Amplitudes are read through `bufFn`; `nrm` is what
`get_absolute` returns (sum of `|ψ_i|²` over the buffer).
`m' = mask &&& r.qMask` is the set of qubits actually measured; index `i` is *consistent* with
the draw `d` when `(i ^^^ d) &&& m' = 0`, i.e. `i` and `d` agree on every measured qubit.

HISTORY. While `measure_mask` renormalised with `normalize`, "every amplitude inconsistent with
the outcome is zero" held only when the collapsed norm exceeded `1e-15`: below it `normalize`
reset the register to `|0…0>` while `measure_mask` still returned the drawn value (this happened
for a draw of positive probability at most `1e-30`, e.g. the unit vector `(√(1 − 1e-32), 1e-16)`
measured with draw `1`). The two counterexample theorems `C06_zero_fails_degenerate` and
`C06_zero_fails_rare` recorded that. With the `rescale` repair (divide by the norm whenever it is
positive, never reset) the edge case is gone: `C06_zero`, `C06_ratio`, `C06_support` and
`C06_repeat` now hold for EVERY register, mask and draw, and the counterexample theorems, false of
the repaired model, are removed (the former second counterexample is now an example of
`C06_zero`, at the end of the file). What remains of the first one is `C06_impossible_draw`: a
draw none of whose consistent amplitudes is non-zero — which `WeightedIndex` never produces,
`C06_possible` — leaves the zero vector (not `|0…0>`), which is still consistent with `C06_zero`.
-/
import Qvnt.Lemmas.Measure

namespace Qvnt

/-! ### the classical result -/

/-- the returned value is the drawn index restricted to the measured qubits … -/
theorem C06_value (r : QReg ℝ) (mask d : Nat) (hq : r.qMask = 2 ^ r.qNum - 1)
    (hn : r.qNum ≤ 64) : (r.measureMask mask d).2.value = d &&& (mask &&& r.qMask) :=
  measure_value r mask d hq hn

/-- … so it has no bit outside the measured positions, and none outside the register -/
theorem C06_value_inside (r : QReg ℝ) (mask d : Nat) (hq : r.qMask = 2 ^ r.qNum - 1)
    (hn : r.qNum ≤ 64) :
    (r.measureMask mask d).2.value &&& (mask &&& r.qMask) = (r.measureMask mask d).2.value ∧
    (r.measureMask mask d).2.value &&& mask = (r.measureMask mask d).2.value ∧
    (r.measureMask mask d).2.value < 2 ^ r.qNum := by
  rw [C06_value r mask d hq hn]
  refine ⟨by rw [Nat.and_assoc, Nat.and_self], ?_, ?_⟩
  · rw [Nat.and_assoc, Nat.and_assoc, Nat.and_comm r.qMask mask, ← Nat.and_assoc mask mask,
      Nat.and_self]
  · have h1 : d &&& (mask &&& r.qMask) ≤ mask &&& r.qMask := Nat.and_le_right
    have h2 : mask &&& r.qMask ≤ r.qMask := Nat.and_le_right
    have hpos : 0 < 2 ^ r.qNum := Nat.pow_pos (by decide)
    omega

/-- the outcome had non-zero probability: if the drawn index has a non-zero amplitude (the
sampler never draws a cell of weight 0), the squared amplitudes consistent with the outcome have
a positive sum -/
theorem C06_possible (r : QReg ℝ) (mask d : Nat) (hd : d < r.psi.size)
    (hp : 0 < (bufFn r.psi d).normSq) : 0 < nrm (r.collapseMask d (mask &&& r.qMask)) :=
  nrm_collapse_pos r d _ hd hp

/-! ### empty and oversized masks -/

/-- measuring no qubit changes nothing and returns the all-zero classical register -/
theorem C06_empty (r : QReg ℝ) (mask d : Nat) (h : mask &&& r.qMask = 0) :
    (r.measureMask mask d).1 = r ∧ (r.measureMask mask d).2 = CReg.new r.qNum := by
  rw [measure_of_zero r mask d h]; exact ⟨rfl, rfl⟩

/-- mask bits beyond the register are ignored -/
theorem C06_beyond (r : QReg ℝ) (mask d : Nat) :
    r.measureMask mask d = r.measureMask (mask &&& r.qMask) d := by
  simp only [QReg.measureMask, Nat.and_assoc, Nat.and_self]

/-! ### the post-measurement state -/

/-- every amplitude that disagrees with the draw on a measured qubit is exactly zero afterwards —
for every register, mask and draw (`collapse_mask` zeroes it, and `rescale` multiplies by a number
or does nothing) -/
theorem C06_zero (r : QReg ℝ) (mask d : Nat) :
    ∀ i, (i ^^^ d) &&& (mask &&& r.qMask) ≠ 0 → bufFn (r.measureMask mask d).1.psi i = 0 := by
  intro i hi
  obtain ⟨lam, _, h⟩ := measure_scaled r mask d
  rw [h i, if_pos hi, cx_scale_zero]

/-- an impossible draw (the amplitudes consistent with it are all zero; by `C06_possible` the
sampler never produces one) on a non-empty set of qubits: `collapse_mask` leaves the zero vector,
`rescale` does not touch it, so afterwards every amplitude is zero and the reported norm is 0.
(Before the `rescale` repair `normalize` turned this vector into `|0…0>`, which contradicted the
returned value.) -/
theorem C06_impossible_draw (r : QReg ℝ) (mask d : Nat) (hne : mask &&& r.qMask ≠ 0)
    (hzero : nrm (r.collapseMask d (mask &&& r.qMask)) = 0) :
    (∀ i, bufFn (r.measureMask mask d).1.psi i = 0) ∧ nrm (r.measureMask mask d).1 = 0 := by
  obtain ⟨h, hz⟩ := measure_impossible r mask d hne hzero
  exact ⟨hz, by rw [h]; exact hzero⟩

/-- the consistent amplitudes are all multiplied by one positive real number: their mutual ratios
and their phases are unchanged (every register, mask and draw) -/
theorem C06_ratio (r : QReg ℝ) (mask d : Nat) :
    ∃ lam : ℝ, 0 < lam ∧ ∀ i, (i ^^^ d) &&& (mask &&& r.qMask) = 0 →
      bufFn (r.measureMask mask d).1.psi i = (bufFn r.psi i).scale lam := by
  obtain ⟨lam, hlam, h⟩ := measure_scaled r mask d
  refine ⟨lam, hlam, fun i hi => ?_⟩
  rw [h i, if_neg (by rw [hi]; exact fun h => h rfl)]

/-- … and when a draw takes place (non-empty effective mask) and is possible (`hpos`, which
`C06_possible` provides) that number is one over the norm of the collapsed vector, so that the
squared norm afterwards is exactly 1 -/
theorem C06_ratio_exact (r : QReg ℝ) (mask d : Nat) (hne : mask &&& r.qMask ≠ 0)
    (hpos : 0 < nrm (r.collapseMask d (mask &&& r.qMask))) :
    (∀ i, (i ^^^ d) &&& (mask &&& r.qMask) = 0 → bufFn (r.measureMask mask d).1.psi i
      = (bufFn r.psi i).scale (1 / Real.sqrt (nrm (r.collapseMask d (mask &&& r.qMask))))) ∧
    nrm (r.measureMask mask d).1 = 1 := by
  refine ⟨fun i hi => ?_, nrm_measure r mask d hne hpos⟩
  rw [measure_exact r mask d hne hpos i, if_neg (by rw [hi]; exact fun h => h rfl)]

/-! ### repeating the measurement -/

/-- after a measurement only indices that agree with the draw on the measured qubits carry
amplitude -/
theorem C06_support (r : QReg ℝ) (mask d : Nat) (i : Nat)
    (hi : bufFn (r.measureMask mask d).1.psi i ≠ 0) :
    i &&& (mask &&& r.qMask) = d &&& (mask &&& r.qMask) := by
  rw [← xor_and_eq_zero_iff]
  exact Classical.not_not.1 (fun h => hi (C06_zero r mask d i h))

/-- the drawn index itself keeps a non-zero amplitude, so the state after a possible draw is not
the zero vector and a second draw can take place -/
theorem C06_drawn_survives (r : QReg ℝ) (mask d : Nat) (hp : bufFn r.psi d ≠ 0) :
    bufFn (r.measureMask mask d).1.psi d ≠ 0 :=
  measure_drawn_ne_zero r mask d hp

/-- measuring the same qubits again returns the same classical register, whichever index of
non-zero amplitude is drawn the second time -/
theorem C06_repeat (r : QReg ℝ) (mask d d₂ : Nat)
    (hd₂ : bufFn (r.measureMask mask d).1.psi d₂ ≠ 0) :
    ((r.measureMask mask d).1.measureMask mask d₂).2 = (r.measureMask mask d).2 := by
  have hs := C06_support r mask d d₂ hd₂
  by_cases h : mask &&& r.qMask = 0
  · rw [measure_of_zero _ mask d₂ (by rw [measure_qMask]; exact h), measure_qNum,
      measure_of_zero r mask d h]
  · rw [measure_of_ne _ mask d₂ (by rw [measure_qMask]; exact h), measure_qNum, measure_qMask,
      measure_of_ne r mask d h]
    simp only [hs]

/-! ### the hypotheses can be met: the state `(3/5, 4/5)` -/

/-- draw 1 on `(3/5, 4/5)`: the result is `1`, the amplitude of `|0>` becomes 0, that of `|1>`
becomes `(4/5) / (4/5)` and the norm is 1 -/
example : (demoReg.measureMask 1 1).2.value = 1 ∧ bufFn (demoReg.measureMask 1 1).1.psi 0 = 0 := by
  refine ⟨?_, C06_zero demoReg 1 1 0 (by decide)⟩
  rw [C06_value demoReg 1 1 rfl (by decide)]; rfl

example : ∃ lam : ℝ, 0 < lam ∧ bufFn (demoReg.measureMask 1 1).1.psi 1 = ⟨4 / 5 * lam, 0 * lam⟩ := by
  obtain ⟨lam, hl, h⟩ := C06_ratio demoReg 1 1
  exact ⟨lam, hl, by rw [h 1 (by decide), demoReg, qubitReg_bufFn]; rfl⟩

example : nrm (demoReg.measureMask 1 1).1 = 1 :=
  (C06_ratio_exact demoReg 1 1 (by decide) demoReg_pos_one).2

/-- `hd₂` of `C06_repeat` can be met: draw 1 twice -/
example : ((demoReg.measureMask 1 1).1.measureMask 1 1).2 = (demoReg.measureMask 1 1).2 := by
  apply C06_repeat demoReg 1 1 1
  apply C06_drawn_survives
  rw [demoReg, qubitReg_bufFn]
  intro h
  have := congrArg Cx.re h
  norm_num at this

example : (demoReg.measureMask 0 1).1 = demoReg := (C06_empty demoReg 0 1 (by decide)).1
example : demoReg.measureMask 3 1 = demoReg.measureMask 1 1 := C06_beyond demoReg 3 1

/-- the former counterexample `(√(1 − 1e-32), 1e-16)`, draw `1` (probability `1e-32`, collapsed
norm `1e-16` below the old `1e-15` threshold): the returned value is `1`, and now the amplitude at
the inconsistent index 0 is 0 and the squared norm afterwards is exactly 1 -/
example : Inv rareReg ∧ 0 < nrm (rareReg.collapseMask 1 (1 &&& rareReg.qMask)) ∧
    Real.sqrt (nrm (rareReg.collapseMask 1 (1 &&& rareReg.qMask))) ≤ RegConsts.tiny ∧
    (rareReg.measureMask 1 1).2.value = 1 ∧ bufFn (rareReg.measureMask 1 1).1.psi 0 = 0 ∧
    nrm (rareReg.measureMask 1 1).1 = 1 := by
  have hq : rareReg.qMask = 1 := rfl
  refine ⟨rareReg_inv, rareReg_pos_one, rareReg_degenerate, ?_,
    C06_zero rareReg 1 1 0 (by rw [hq]; decide),
    (C06_ratio_exact rareReg 1 1 (by rw [hq]; decide) rareReg_pos_one).2⟩
  rw [C06_value rareReg 1 1 rfl (by decide), hq]; decide

/-- `C06_impossible_draw` is not vacuous: `|0>` measured with the draw `1` -/
example : let r := QReg.withState (R := ℝ) 1 0
    (r.measureMask 1 1).2.value = 1 ∧ ∀ i, bufFn (r.measureMask 1 1).1.psi i = 0 := by
  intro r
  have hq : r.qMask = 1 := rfl
  have hne : 1 &&& r.qMask ≠ 0 := by rw [hq]; decide
  have hzero : nrm (r.collapseMask 1 (1 &&& r.qMask)) = 0 := by
    rw [nrm_eq_sum]
    apply Finset.sum_eq_zero
    intro i _
    rw [bufFn_collapse, hq, (QReg.withState_spec (R := ℝ) 1 0).2.2.2 i]
    by_cases h0 : i = 0
    · subst h0; simp [normSq_zero]
    · simp [h0, normSq_zero]
  refine ⟨?_, (C06_impossible_draw r 1 1 hne hzero).1⟩
  rw [C06_value r 1 1 rfl (by decide), hq]; decide

end Qvnt
