/-
C18 — a rejected chunk leaves the interpreter session unchanged.

MODEL objects: `Interp.addAst` (`Int::add_ast`, after the D19 repair), `Interp.astChanges`
(`Int::ast_changes`), `Interp.processNodes`. `Session.add s c` is `add_ast` seen as the
`&mut self` method it is in Rust: it returns the session afterwards and the error, if any.
-/
import Qvnt.Lemmas.Queue

namespace Qvnt
open Interp

section
variable {R : Type} [Add R] [Sub R] [Mul R] [Neg R] [Div R] [ExprFns R] [AngleFns R]

/-- a refused chunk leaves every component of the session (registers, queue, gates, record of
accepted chunks, measurement mode) as it was -/
theorem C18_rollback (s : Interp R) (c : List (Node R)) (e : IntError)
    (h : (Session.add s c).2 = some e) : (Session.add s c).1 = s := by
  unfold Session.add at h ⊢
  cases hs : s.addAst c with
  | ok s' => rw [hs] at h; simp at h
  | err e' => rfl
  | panic p => rfl

/-- the error reported is the one `add_ast` returned, and only then is the session kept -/
theorem C18_error_iff (s : Interp R) (c : List (Node R)) (e : IntError) :
    (Session.add s c).2 = some e ↔ s.addAst c = .err e := by
  unfold Session.add
  cases s.addAst c with
  | ok s' => simp
  | err e' => simp
  | panic p => simp

/-- after a refusal the session behaves as if the chunk had never been offered -/
theorem C18_continue (s : Interp R) (c c' : List (Node R)) (e : IntError)
    (h : (Session.add s c).2 = some e) :
    Session.add (Session.add s c).1 c' = Session.add s c' := by
  rw [C18_rollback s c e h]

/-- an accepted chunk extends the session by exactly its changes; nothing else is touched -/
theorem C18_accept (s s' : Interp R) (c : List (Node R)) (h : s.addAst c = .ok s') :
    ∃ ch, s.astChanges {} c = .ok ch ∧ s' = s.appendInt ch ∧ Session.add s c = (s', none) := by
  unfold Session.add
  unfold addAst at h ⊢
  cases hc : s.astChanges {} c with
  | ok ch =>
    rw [hc] at h
    simp only [Res.ok.injEq] at h
    subst h
    exact ⟨ch, rfl, rfl, rfl⟩
  | err e => rw [hc] at h; cases h
  | panic p => rw [hc] at h; cases h

/-- statements before the failing one leave nothing behind: if a prefix `a` of the chunk is
fine and the rest fails with `e`, the whole chunk fails with `e` (and by `C18_rollback` the
session is as before) -/
theorem C18_prefix_discarded (s d : Interp R) (a b : List (Node R)) (e : IntError)
    (ha : processNodes s {} a = .ok d) (hb : processNodes s d b = .err e) :
    addAst s (a ++ b) = .err e ∧ Session.add s (a ++ b) = (s, some e) := by
  have : addAst s (a ++ b) = .err e := by
    simp only [addAst, astChanges, processNodes_append, ha, hb]
  exact ⟨this, by simp only [Session.add, this]⟩

/-- the changes `ast_changes` computes do not contain the session they were computed against:
they are the same for any two sessions with the same registers and gate definitions
(whatever their queues, records and modes), and their record is the chunk alone -/
theorem C18_delta_untouched (s s' ch : Interp R) (c : List (Node R)) (hq : s.qReg = s'.qReg)
    (hc : s.cReg = s'.cReg) (hm : s.macros = s'.macros) (h : astChanges s {} c = .ok ch) :
    astChanges s' {} c = .ok ch ∧ ch.asts = [c.length] ∧ ch.mOp = .set := by
  refine ⟨astChanges_congr s s' ch c hq hc hm h, ?_⟩
  obtain ⟨δs, _, rfl⟩ := (astChanges_ok_iff _ _ _).mp h
  exact ⟨rfl, by simp only [chunkOf, applyAll_mOp]⟩

/-! ### non-vacuity -/

/-- a chunk whose second statement is refused: the declaration before it is discarded -/
example : Session.add (R := R) {} [.qreg "q" 2, .reset (.register "r")] = ({}, some (.noQReg "r")) :=
  rfl

example : (Session.add (R := R) { qReg := ["a"] } [.qreg "q" 2, .qreg "a" 1]).2
    = some (.dupQReg "a" 1) := rfl

/-- an accepted chunk does change the session -/
example : (Session.add (R := R) {} [.qreg "q" 2]).1.qReg = ["q", "q"] := rfl

end
end Qvnt
