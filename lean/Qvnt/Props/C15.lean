/-
C15 — the quantum Fourier transform operators are the discrete Fourier transform.

"For every qubit mask, the natural-order QFT operator (`qft_swapped`) acts on the sub-register
selected by the mask (lowest selected bit least significant) as the unitary DFT matrix
`F[j][k] = exp(2πi jk/N)/√N`, `N = 2^(selected bits)`, and as the identity on the remaining
qubits, up to one global phase; the plain `qft` operator is the same transform with the order
of the selected qubits reversed on one side. Consequently QFT followed by its dagger is the
identity."

MODEL objects: `Op.qft`, `Op.qftSwapped` (`multi::qft::qft`, `qft_swapped`), `MultiOp.apply`,
`MultiOp.dgr`. SPEC objects: `qftCircuit`, `reverseCircuit` (`Spec/Denote.lean`), `dftAct`,
`reverseSel`, `subVal`, `withSubVal`, `maskOfBits` (`Spec/Dft.lean`).
Everything is over ℝ: `cis θ = (cos θ, sin θ)`, the phase table the Rust code computes is
`phaseOfR j = cis (π / 2^(j+1))` (half-angle phase of the angle `π/2^j`), the roots of unity are
`rootR N t = cis (2π t / N)`, and the constants are `Consts ℝ = ⟨1/2, 1/√2⟩` (`constsReal`).
"Up to one global phase": a single complex number `lam` with `|lam|² = 1`, the same for every
input state and every basis index (it is the product of the constant factors `e^{-iθ/4}` of the
controlled-phase decompositions, see `C15_phase_gate`).
Proofs: `Qvnt/Lemmas/DftBits.lean`, `DftGates.lean`, `DftRev.lean`, `Dft.lean`, `Ctor.lean`.
-/
import Qvnt.Lemmas.Dft
import Qvnt.Props.C03

namespace Qvnt
open Qvnt.Spec

/-- **The QFT circuit is the DFT composed with the qubit reversal, up to one global phase.**
For every ascending list `v` of distinct single-bit masks there is one unit complex number `lam`
such that, for every state `ψ` and basis index `idx`, the amplitude the QFT circuit produces at
`idx` is `lam` times the amplitude of "reverse the order of the selected qubits, then apply the
DFT matrix `F[j][k] = e^{2πi jk/N}/√N` (`N = 2^|v|`) to the selected sub-register, identity on
the other qubits". -/
theorem C15_plain (v : List Nat) (hv : BitList v) :
    ∃ lam : Cx ℝ, lam.normSq = 1 ∧ ∀ (ψ : State ℝ) (idx : Nat),
      actAll (qftCircuit phaseOfR v) ψ idx
        = lam * dftAct (rootR (2 ^ v.length)) (1 / Real.sqrt (2 ^ v.length)) v
            (reverseSel v ψ) idx :=
  Dft.qft_plain v hv

/-- **The natural-order circuit (qubit reversal, then the QFT circuit) is the DFT matrix on the
selected sub-register, identity elsewhere, up to one global phase.** -/
theorem C15_swapped (v : List Nat) (hv : BitList v) :
    ∃ lam : Cx ℝ, lam.normSq = 1 ∧ ∀ (ψ : State ℝ) (idx : Nat),
      actAll (reverseCircuit v ++ qftCircuit phaseOfR v) ψ idx
        = lam * dftAct (rootR (2 ^ v.length)) (1 / Real.sqrt (2 ^ v.length)) v ψ idx :=
  Dft.qft_swapped v hv

/-- **The model's `qft(mask)` operator** (for every 64-bit mask on which the constructor
succeeds) applies as `lam ·` DFT ∘ (reversal of the selected qubits), `|lam| = 1`. -/
theorem C15_qft (m : Nat) (hm : m < 2 ^ 64) (o : MultiOp ℝ) (ho : Op.qft phaseOfR m = some o) :
    ∃ lam : Cx ℝ, lam.normSq = 1 ∧ ∀ (ψ : State ℝ) (idx : Nat),
      o.apply ψ idx
        = lam * dftAct (rootR (2 ^ (bitsOf m).length)) (1 / Real.sqrt (2 ^ (bitsOf m).length))
            (bitsOf m) (reverseSel (bitsOf m) ψ) idx := by
  obtain ⟨lam, h1, h2⟩ := C15_plain (bitsOf m) (bitList_bitsOf m)
  refine ⟨lam, h1, fun ψ idx => ?_⟩
  rw [qft_apply m hm constsReal_invSqrt2 constsReal_half phaseOfR o ho, h2]

/-- **The model's `qft_swapped(mask)` operator** applies as `lam ·` DFT matrix on the selected
sub-register (lowest selected bit least significant), identity on the other qubits, `|lam| = 1`. -/
theorem C15_qft_swapped (m : Nat) (hm : m < 2 ^ 64) (o : MultiOp ℝ)
    (ho : Op.qftSwapped phaseOfR m = some o) :
    ∃ lam : Cx ℝ, lam.normSq = 1 ∧ ∀ (ψ : State ℝ) (idx : Nat),
      o.apply ψ idx
        = lam * dftAct (rootR (2 ^ (bitsOf m).length)) (1 / Real.sqrt (2 ^ (bitsOf m).length))
            (bitsOf m) ψ idx := by
  obtain ⟨lam, h1, h2⟩ := C15_swapped (bitsOf m) (bitList_bitsOf m)
  refine ⟨lam, h1, fun ψ idx => ?_⟩
  rw [qftSwapped_apply m hm constsReal_invSqrt2 constsReal_half phaseOfR o ho, h2]

/-- **Identity on the remaining qubits**: the amplitude `dftAct … v ψ idx` depends on `ψ` only at
indices that agree with `idx` on every bit outside the selected ones (for any root table, any
scale factor, any list of masks). -/
theorem C15_identity_elsewhere (root : Nat → Cx ℝ) (s : ℝ) (v : List Nat) (ψ φ : State ℝ)
    (idx : Nat)
    (h : ∀ j, (∀ b, (maskOfBits v).testBit b = false → j.testBit b = idx.testBit b) → ψ j = φ j) :
    dftAct root s v ψ idx = dftAct root s v φ idx :=
  Dft.dftAct_congr root s v ψ φ idx h

/-- … and the basis indices it reads are `idx` with only the selected bits rewritten. -/
theorem C15_withSubVal_outside (v : List Nat) (idx k b : Nat)
    (hb : (maskOfBits v).testBit b = false) :
    (withSubVal v idx k).testBit b = idx.testBit b :=
  Dft.testBit_withSubVal_outside v idx k b hb

/-- The reversal circuit (swap `vᵢ ↔ v_{len-1-i}`) reverses the order of the selected qubits. -/
theorem C15_reverse (v : List Nat) (hv : BitList v) (ψ : State ℝ) :
    actAll (reverseCircuit v) ψ = reverseSel v ψ :=
  Dft.reverse_act v hv ψ

/-- Reversing the order of the selected qubits twice changes nothing. -/
theorem C15_reverse_involutive (v : List Nat) (hv : BitList v) (ψ : State ℝ) :
    reverseSel v (reverseSel v ψ) = ψ :=
  Dft.reverseSel_reverseSel v hv ψ

/-- **The controlled-phase decomposition used by `qft`**: "`RZ(2α)` on qubit `q` controlled by
qubit `p`, then `RZ(α)` on `p`" (written with their half-angle phases `e^{iα}`, `e^{iα/2}`)
multiplies every amplitude by the constant `e^{-iα/2}` and, where both bits are 1, by `e^{2iα}`:
it is `e^{-iθ/4} · diag(1,1,1,e^{iθ})` with `θ = 2α`. -/
theorem C15_phase_gate (p q : Nat) (α : ℝ) (ψ : State ℝ) (idx : Nat) :
    (plain (.one (matRZ (cis (α / 2)).re (cis (α / 2)).im) (2 ^ p))).act
        ((⟨2 ^ p, .one (matRZ (cis α).re (cis α).im) (2 ^ q)⟩ : SGate ℝ).act ψ) idx
      = cis (-(α / 2)) * (if idx.testBit p && idx.testBit q then cis (2 * α) else 1) * ψ idx :=
  Dft.pair_act p q α _ _ rfl rfl ψ idx

/-- **QFT followed by its dagger is the identity** (both orders), for `qft(mask)`. -/
theorem C15_inverse (m : Nat) (hm : m < 2 ^ 64) (o : MultiOp ℝ)
    (ho : Op.qft phaseOfR m = some o) (ψ : State ℝ) :
    (MultiOp.dgr o).apply (o.apply ψ) = ψ ∧ o.apply ((MultiOp.dgr o).apply ψ) = ψ :=
  C03_inverse constsReal_invSqrt2 constsReal_half phaseOfR Dft.isUnitPhase_phaseOfR (.qft m) hm
    trivial o (by simp [OpExpr.build, OpExpr.ofOpt, ho]) ψ

/-- **QFT followed by its dagger is the identity** (both orders), for `qft_swapped(mask)`. -/
theorem C15_inverse_swapped (m : Nat) (hm : m < 2 ^ 64) (o : MultiOp ℝ)
    (ho : Op.qftSwapped phaseOfR m = some o) (ψ : State ℝ) :
    (MultiOp.dgr o).apply (o.apply ψ) = ψ ∧ o.apply ((MultiOp.dgr o).apply ψ) = ψ :=
  C03_inverse constsReal_invSqrt2 constsReal_half phaseOfR Dft.isUnitPhase_phaseOfR
    (.qftSwapped m) hm trivial o (by simp [OpExpr.build, OpExpr.ofOpt, ho]) ψ

/-- non-vacuity: both constructors succeed on every 64-bit mask -/
example (m : Nat) (hm : m < 2 ^ 64) :
    (∃ o, Op.qft phaseOfR m = some o) ∧ (∃ o, Op.qftSwapped phaseOfR m = some o) :=
  ⟨qft_isSome m hm phaseOfR, qftSwapped_isSome m hm phaseOfR⟩

end Qvnt
