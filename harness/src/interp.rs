//! Interpreter commands: AST serialisation (the model starts from the AST the real parser
//! produced and from meval's RPN of every parameter expression), session state summary,
//! error serialisation.

use std::fmt::Write;

use qasm::{Argument, AstNode};
use qvnt::prelude::*;
use qvnt::qasm::int::{Error as IErr, ExtOp, MeasureOp, Sep};
use qvnt::qasm::{Ast, Sym};

use crate::trace::{cvec, C};

pub fn hex(s: &str) -> String {
    if s.is_empty() {
        return "_".to_string();
    }
    let mut o = String::with_capacity(2 * s.len());
    for b in s.as_bytes() {
        write!(o, "{b:02x}").unwrap();
    }
    o
}

pub fn unhex(h: &str) -> String {
    if h == "_" {
        return String::new();
    }
    let bytes: Vec<u8> = (0..h.len() / 2).map(|i| u8::from_str_radix(&h[2 * i..2 * i + 2], 16).unwrap()).collect();
    String::from_utf8_lossy(&bytes).into_owned()
}

fn arg_ser(a: &Argument) -> String {
    match a {
        Argument::Qubit(n, i) => format!("q {} {}", hex(n), *i as usize),
        Argument::Register(n) => format!("r {}", hex(n)),
    }
}

/// `expr.parse::<meval::Expr>()` = tokenize + shunting yard; serialise the RPN
pub fn pexpr_ser(text: &str) -> String {
    use meval::tokenizer::{Operation as O, Token as T};
    let toks = match meval::tokenizer::tokenize(text) {
        Ok(t) => t,
        Err(_) => return format!("{} P", hex(text)),
    };
    let rpn = match meval::shunting_yard::to_rpn(&toks) {
        Ok(r) => r,
        Err(_) => return format!("{} S", hex(text)),
    };
    let mut s = format!("{} K {}", hex(text), rpn.len());
    let op = |o: &O| match o {
        O::Plus => '+',
        O::Minus => '-',
        O::Times => '*',
        O::Div => '/',
        O::Rem => '%',
        O::Pow => '^',
    };
    for t in &rpn {
        match t {
            T::Number(x) => write!(s, " n{}", x.to_bits()).unwrap(),
            T::Var(v) => write!(s, " v{}", hex(v)).unwrap(),
            T::Binary(o) => write!(s, " b{}", op(o)).unwrap(),
            T::Unary(o) => write!(s, " u{}", op(o)).unwrap(),
            T::Func(n, k) => write!(s, " f{}:{}", hex(n), k.unwrap_or(0)).unwrap(),
            _ => write!(s, " x").unwrap(),
        }
    }
    s
}

fn call_ser(name: &str, regs: &[Argument], args: &[&str]) -> String {
    let mut s = format!("{} {}", hex(name), regs.len());
    for r in regs {
        write!(s, " {}", arg_ser(r)).unwrap();
    }
    write!(s, " {}", args.len()).unwrap();
    for a in args {
        write!(s, " {}", pexpr_ser(a)).unwrap();
    }
    s
}

fn inner_ser(n: &AstNode) -> String {
    match n {
        AstNode::ApplyGate(name, regs, args) => format!("c {}", call_ser(name, regs, args)),
        _ => "o".to_string(),
    }
}

pub fn node_ser(n: &AstNode) -> String {
    match n {
        AstNode::QReg(a, s) => format!("Q {} {}", hex(a), *s as usize),
        AstNode::CReg(a, s) => format!("C {} {}", hex(a), *s as usize),
        AstNode::Barrier(_) => "B".to_string(),
        AstNode::Reset(a) => format!("R {}", arg_ser(a)),
        AstNode::Measure(q, c) => format!("M {} {}", arg_ser(q), arg_ser(c)),
        AstNode::ApplyGate(name, regs, args) => format!("A {}", call_ser(name, regs, args)),
        AstNode::Opaque(..) => "O".to_string(),
        AstNode::Gate(name, regs, args, body) => {
            let mut s = format!("G {} {}", hex(name), regs.len());
            for r in regs {
                write!(s, " {}", hex(r)).unwrap();
            }
            write!(s, " {}", args.len()).unwrap();
            for a in args {
                write!(s, " {}", hex(a)).unwrap();
            }
            write!(s, " {}", body.len()).unwrap();
            for b in body {
                write!(s, " {}", inner_ser(b)).unwrap();
            }
            s
        }
        AstNode::If(lhs, rhs, body) => format!("I {} {} {}", hex(lhs), *rhs as usize, inner_ser(body)),
    }
}

fn meval_err(e: &meval::Error) -> String {
    match e {
        meval::Error::UnknownVariable(v) => format!("UnknownVariable:{}", hex(v)),
        meval::Error::Function(n, fe) => format!(
            "Function:{}:{}",
            hex(n),
            match fe {
                meval::FuncEvalError::TooFewArguments => "TooFew".to_string(),
                meval::FuncEvalError::TooManyArguments => "TooMany".to_string(),
                meval::FuncEvalError::NumberArgs(k) => format!("NumberArgs{k}"),
                meval::FuncEvalError::UnknownFunction => "UnknownFunction".to_string(),
            }
        ),
        meval::Error::ParseError(_) => "ParseError".to_string(),
        meval::Error::RPNError(_) => "RPNError".to_string(),
    }
}

pub fn ierr_ser(e: &IErr) -> String {
    use qvnt::qasm::int::macros::Error as ME;
    match e {
        IErr::NoQReg(n) => format!("NoQReg {}", hex(n)),
        IErr::NoCReg(n) => format!("NoCReg {}", hex(n)),
        IErr::DupQReg(n, k) => format!("DupQReg {} {k}", hex(n)),
        IErr::DupCReg(n, k) => format!("DupCReg {} {k}", hex(n)),
        IErr::IdxOutOfRange(n, k) => format!("IdxOutOfRange {} {k}", hex(n)),
        IErr::UnknownGate(n) => format!("UnknownGate {}", hex(n)),
        IErr::InvalidControlMask(c, a) => format!("InvalidControlMask {c} {a}"),
        IErr::UnevaluatedArgument(s, me) => format!("UnevaluatedArgument {} {}", hex(s), meval_err(me)),
        IErr::WrongRegNumber(n, k) => format!("WrongRegNumber {} {k}", hex(n)),
        IErr::WrongArgNumber(n, k) => format!("WrongArgNumber {} {k}", hex(n)),
        IErr::UnmatchedRegSize(a, b) => format!("UnmatchedRegSize {a} {b}"),
        IErr::MacroError(m) => match m {
            ME::DisallowedNodeInMacro(_) => "MacroError DisallowedNodeInMacro".to_string(),
            ME::DisallowedRegister(n, k) => format!("MacroError DisallowedRegister {} {k}", hex(n)),
            ME::UnknownReg(n) => format!("MacroError UnknownReg {}", hex(n)),
            ME::UnknownArg(n) => format!("MacroError UnknownArg {}", hex(n)),
            ME::RecursiveMacro(n) => format!("MacroError RecursiveMacro {}", hex(n)),
        },
        IErr::MacroAlreadyDefined(n) => format!("MacroAlreadyDefined {}", hex(n)),
        IErr::DisallowedNodeInIf(_) => "DisallowedNodeInIf".to_string(),
        IErr::IdentIsTooLarge(n, k) => format!("IdentIsTooLarge {} {k}", hex(n)),
        IErr::RegisterIsTooLarge(n, k) => format!("RegisterIsTooLarge {} {k}", hex(n)),
    }
}

/// deterministic probe state (exact binary fractions, no libm)
pub fn probe_state(n: usize) -> Vec<C> {
    let len = (1usize << n).max(8);
    (0..len)
        .map(|i| {
            if i < (1usize << n) {
                C { re: (((i * 7 + 3) % 11) as f64 - 5.0) / 16.0, im: (((i * 5 + 1) % 13) as f64 - 6.0) / 16.0 }
            } else {
                C { re: 0.0, im: 0.0 }
            }
        })
        .collect()
}

fn probe(op: &MultiOp, nq: usize) -> String {
    if nq > 6 || op.act_on() >= (1usize << nq).max(8) {
        return "0".to_string();
    }
    let mut q = QReg::new(nq);
    q.verif_set_psi(probe_state(nq));
    q.apply(op);
    cvec(q.verif_psi())
}

fn names_list(v: &[&str]) -> String {
    if v.is_empty() {
        "-".to_string()
    } else {
        v.iter().map(|s| hex(s)).collect::<Vec<_>>().join(",")
    }
}

pub fn extop_ser(e: &ExtOp, nq: usize) -> String {
    let mut s = format!("blocks {}", e.0.len());
    for (op, sep) in e.0.iter() {
        let sp = match sep {
            Sep::Nop => "nop".to_string(),
            Sep::Measure(q, c) => format!("measure:{q}:{c}"),
            Sep::IfBranch(c, v) => format!("if:{c}:{v}"),
            Sep::Reset(q) => format!("reset:{q}"),
        };
        write!(s, " {sp} {} {}", crate::ops::names(op), probe(op, nq)).unwrap();
    }
    write!(s, " tail {} {}", crate::ops::names(&e.1), probe(&e.1, nq)).unwrap();
    s
}

pub fn int_summary(int: &Int) -> String {
    let nq = int.verif_q_reg().len();
    let macros = {
        let m = int.verif_macros();
        let mut names: Vec<String> = m.split(';').filter(|x| !x.is_empty()).map(|kv| hex(kv.split('=').next().unwrap())).collect();
        names.sort();
        if names.is_empty() { "-".to_string() } else { names.join(",") }
    };
    format!(
        "mop={} q={} c={} macros={} asts={} {}",
        match int.verif_m_op() {
            MeasureOp::Set => "set",
            MeasureOp::Xor => "xor",
        },
        names_list(int.verif_q_reg()),
        names_list(int.verif_c_reg()),
        macros,
        int.iter_ast().count(),
        extop_ser(int.verif_q_ops(), nq)
    )
}

#[derive(Default)]
pub struct ISt {
    pub int: Option<Int<'static>>,
    pub sym: Option<Sym>,
}

fn leak(s: String) -> &'static str {
    Box::leak(s.into_boxed_str())
}

/// parse a chunk; returns the observation prefix and the AST
fn parse_chunk(hexsrc: &str) -> Result<(String, Ast<'static>), String> {
    let src = leak(unhex(hexsrc));
    // the external lexer/parser runs under a watchdog: a source it never returns from is
    // reported as `hang` (the stuck thread is abandoned)
    let (tx, rx) = std::sync::mpsc::channel();
    std::thread::Builder::new()
        .stack_size(16 << 20)
        .spawn(move || {
            let r = std::panic::catch_unwind(|| Ast::from_source(src));
            let _ = tx.send(r);
        })
        .expect("spawn");
    let parsed = match rx.recv_timeout(std::time::Duration::from_secs(3)) {
        Ok(Ok(r)) => r,
        Ok(Err(e)) => return Err(format!("panic parser {}", crate::panic_msg(&e).replace(' ', "_"))),
        Err(_) => return Err("hang parser".to_string()),
    };
    match parsed {
        Ok(ast) => {
            let nodes: Vec<String> = ast.clone().into_iter().map(|n| node_ser(&n)).collect();
            let mut s = format!("nodes {}", nodes.len());
            for n in nodes {
                write!(s, " {n}").unwrap();
            }
            Ok((s, ast))
        }
        Err(e) => Err(format!(
            "parseerr {}",
            match e {
                qvnt::qasm::ast::Error::EmptySource => "EmptySource".to_string(),
                qvnt::qasm::ast::Error::ParseError(pe) => format!("ParseError:{}", format!("{pe:?}").split('(').next().unwrap()),
            }
        )),
    }
}

pub fn exec(st: &mut ISt, toks: &[&str]) -> String {
    match toks[0] {
        "inew" => {
            st.int = Some(Int::default());
            st.sym = None;
            int_summary(st.int.as_ref().unwrap())
        }
        "ixor" => {
            let i = st.int.take().expect("no int");
            st.int = Some(i.xor());
            int_summary(st.int.as_ref().unwrap())
        }
        "iadd" | "ichg" | "iprep" => {
            let (pre, ast) = match parse_chunk(toks[1]) {
                Ok(x) => x,
                Err(e) => return e,
            };
            let int = st.int.as_mut().expect("no int");
            let res = if toks[0] == "iadd" {
                int.add_ast(ast)
            } else {
                let mut d = Int::default();
                match int.ast_changes(&mut d, ast) {
                    Ok(()) => {
                        let base = std::mem::take(int);
                        *int = if toks[0] == "ichg" { unsafe { base.append_int(d) } } else { unsafe { d.prepend_int(base) } };
                        Ok(())
                    }
                    Err(e) => Err(e),
                }
            };
            let r = match res {
                Ok(()) => "ok".to_string(),
                Err(e) => format!("err {}", ierr_ser(&e)),
            };
            format!("{pre} ;; {r} ;; {}", int_summary(st.int.as_ref().unwrap()))
        }
        "isym" => {
            let int = st.int.as_ref().expect("no int").clone();
            match toks[1] {
                "new" => st.sym = Some(Sym::new(int)),
                "init" => match st.sym.as_mut() {
                    Some(s) => s.init(int),
                    None => st.sym = Some(Sym::new(int)),
                },
                "reset" => st.sym.as_mut().expect("no sym").reset(),
                "finish" => {
                    let seed: u64 = toks[2].parse().unwrap();
                    let _ = qvnt::verif::take_measure_log();
                    qvnt::verif::seed(Some(seed));
                    st.sym.as_mut().expect("no sym").finish();
                    qvnt::verif::seed(None);
                }
                other => panic!("isym {other}"),
            }
            let log = qvnt::verif::take_measure_log();
            let s = st.sym.as_ref().unwrap();
            let mut o = format!("draws {}", log.len());
            for (_, d) in &log {
                write!(o, " {d}").unwrap();
            }
            let c = s.get_class();
            write!(o, " creg {} {} psi {}", c.get(), c.num(), cvec(s.verif_q_reg().verif_psi())).unwrap();
            o
        }
        "igate" => {
            // igate <hexname> <nregs> regs.. <nargs> argbits.. <nq>
            let name = leak(unhex(toks[1]));
            let nr: usize = toks[2].parse().unwrap();
            let regs: Vec<usize> = toks[3..3 + nr].iter().map(|t| t.parse().unwrap()).collect();
            let na: usize = toks[3 + nr].parse().unwrap();
            let args: Vec<f64> = toks[4 + nr..4 + nr + na].iter().map(|t| f64::from_bits(t.parse().unwrap())).collect();
            let nq: usize = toks[4 + nr + na].parse().unwrap();
            match qvnt::verif::process_gate(name, regs, args) {
                Ok(op) => format!("ok {} {} {}", crate::ops::names(&op), op.act_on(), probe(&op, nq)),
                Err(e) => format!("err {}", ierr_ser(&e)),
            }
        }
        other => panic!("unknown interpreter command {other}"),
    }
}
