fn main() { println!("hi"); }
