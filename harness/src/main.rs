//! `corr` — runs generated operation sequences on the real crate (in-process, hooks on) and
//! writes a trace file: one command per line with what the implementation produced. The
//! Lean driver replays the same file through the model and the spec.
//!
//! usage: corr <suite> <seed> <count> <out-file> [key=value ...]
//!        corr replay <trace-in> <out-file>         (re-execute the commands of a trace)

mod conc;
mod interp;
mod ops;
mod qflat;
mod qgen;
mod rng;
mod suites;
mod trace;

use std::any::Any;

pub fn panic_msg(e: &Box<dyn Any + Send>) -> String {
    if let Some(s) = e.downcast_ref::<&str>() {
        s.to_string()
    } else if let Some(s) = e.downcast_ref::<String>() {
        s.clone()
    } else {
        "panic".to_string()
    }
}

thread_local! {
    pub static LAST_PANIC_LOC: std::cell::RefCell<String> = std::cell::RefCell::new(String::new());
}

fn main() {
    std::panic::set_hook(Box::new(|info| {
        let loc = info
            .location()
            .map(|l| format!("{}:{}", l.file(), l.line()))
            .unwrap_or_default();
        LAST_PANIC_LOC.with(|l| *l.borrow_mut() = loc);
    }));

    let args: Vec<String> = std::env::args().collect();
    if args.len() < 4 {
        eprintln!("usage: corr <suite> <seed> <count> <out-file> [key=value ...]");
        std::process::exit(2);
    }
    if args[1] == "replay" {
        let text = std::fs::read_to_string(&args[2]).expect("read trace");
        let mut tr = trace::Trace::new();
        suites::replay(&text, &mut tr);
        std::fs::write(&args[3], &tr.buf).expect("write trace");
        println!("replayed cases={} lines={}", tr.cases, tr.lines);
        return;
    }
    let suite = args[1].as_str();
    let seed: u64 = args[2].parse().expect("seed");
    let count: usize = args[3].parse().expect("count");
    let out = &args[4];
    let kv: std::collections::HashMap<String, String> = args[5..]
        .iter()
        .filter_map(|a| a.split_once('=').map(|(k, v)| (k.to_string(), v.to_string())))
        .collect();

    suites::CURRENT_FILE.with(|f| *f.borrow_mut() = Some(format!("{out}.cur")));
    let mut tr = trace::Trace::new();
    let stats = suites::run(suite, seed, count, &kv, &mut tr);
    let _ = std::fs::remove_file(format!("{out}.cur"));
    std::fs::write(out, &tr.buf).expect("write trace");
    println!("suite={suite} seed={seed} cases={} lines={} {stats}", tr.cases, tr.lines);
}
