//! Grammar-directed generator of OpenQASM programs (as text) over the subset the
//! interpreter supports, plus planted rule violations.

use crate::rng::Rng;

pub const ONE_Q: [&str; 9] = ["x", "y", "z", "h", "s", "sdg", "t", "tdg", "qft"];
pub const ROT1: [&str; 4] = ["rx", "ry", "rz", "u1"];
pub const ROT2: [&str; 3] = ["rxx", "ryy", "rzz"];
pub const TWO_Q: [&str; 4] = ["swap", "sqrt_swap", "i_swap", "sqrt_i_swap"];

#[derive(Clone)]
pub struct Env {
    pub qregs: Vec<(String, usize)>,
    pub cregs: Vec<(String, usize)>,
    /// user gates: name, number of params, number of qubit args
    pub gates: Vec<(String, usize, usize)>,
}

impl Env {
    pub fn nq(&self) -> usize {
        self.qregs.iter().map(|r| r.1).sum()
    }
    pub fn qubits(&self) -> Vec<String> {
        self.qregs.iter().flat_map(|(n, s)| (0..*s).map(move |i| format!("{n}[{i}]"))).collect()
    }
    pub fn cbits(&self) -> Vec<String> {
        self.cregs.iter().flat_map(|(n, s)| (0..*s).map(move |i| format!("{n}[{i}]"))).collect()
    }
}

/// expression tree with its value, so that only finite, moderate values are generated
pub fn gen_expr(r: &mut Rng, params: &[(String, f64)], depth: usize) -> (String, f64) {
    let leaf = depth == 0 || r.chance(2, 5);
    if leaf {
        match r.below(7) {
            0 => ("pi".to_string(), std::f64::consts::PI),
            6 => {
                // exact multiples of pi, negative ones and ones beyond one and two turns included
                let k = *r.pick(&[-5i32, -4, -3, -2, -1, 2, 3, 4, 6][..]);
                (format!("{k}*pi"), k as f64 * std::f64::consts::PI)
            }
            1 if !params.is_empty() => {
                let (n, v) = r.pick(params).clone();
                (n, v)
            }
            2 => {
                let k = r.below(10);
                (format!("{k}"), k as f64)
            }
            3 => {
                let v = (r.below(4000) as f64) / 1000.0;
                (format!("{v:.3}"), format!("{v:.3}").parse().unwrap())
            }
            4 => ("1.5e-3".to_string(), 1.5e-3),
            _ => {
                let k = 1 + r.below(8);
                (format!("pi/{k}"), std::f64::consts::PI / k as f64)
            }
        }
    } else {
        // inside a gate body (formal parameters in scope) the value at the point of use is not known here: only
        // operations that keep every finite input finite are used (no division by an expression, no ln / sqrt / exp / ^)
        let in_body = !params.is_empty();
        for _ in 0..20 {
            let (a, va) = gen_expr(r, params, depth - 1);
            let (b, vb) = gen_expr(r, params, depth - 1);
            let pick = if in_body { *r.pick(&[0usize, 1, 2, 4, 9, 10, 8][..]) } else { r.below(9) };
            let (s, v) = match pick {
                0 => (format!("{a}+{b}"), va + vb),
                1 => (format!("{a}-({b})"), va - vb),
                2 => (format!("({a})*({b})"), va * vb),
                3 => (format!("({a})/({b})"), va / vb),
                4 => (format!("-({a})"), -va),
                5 => {
                    let k = r.below(3);
                    (format!("({a})^{k}"), va.powf(k as f64))
                }
                6 => {
                    let f = *r.pick(&["sqrt", "abs", "floor", "ceil", "round", "exp", "ln"][..]);
                    let v = match f {
                        "sqrt" => va.sqrt(),
                        "abs" => va.abs(),
                        "floor" => va.floor(),
                        "ceil" => va.ceil(),
                        "round" => va.round(),
                        "exp" => va.exp(),
                        _ => va.ln(),
                    };
                    (format!("{f}({a})"), v)
                }
                7 => {
                    // left-associativity without parentheses: operands are atoms
                    let (b0, vb0) = gen_expr(r, params, 0);
                    (format!("({a}) - {b0} - 1"), va - vb0 - 1.0)
                }
                9 => {
                    let f = *r.pick(&["abs", "floor", "ceil", "round"][..]);
                    let v = match f {
                        "abs" => va.abs(),
                        "floor" => va.floor(),
                        "ceil" => va.ceil(),
                        _ => va.round(),
                    };
                    (format!("{f}({a})"), v)
                }
                10 => {
                    let k = 2 + r.below(7);
                    (format!("({a})/{k}"), va / k as f64)
                }
                _ => {
                    let (a0, va0) = gen_expr(r, params, 0);
                    let (b0, vb0) = gen_expr(r, params, 0);
                    (format!("{a0}*{b0}"), va0 * vb0)
                }
            };
            if v.is_finite() && v.abs() < 1e6 {
                return (s, v);
            }
        }
        ("0.25".to_string(), 0.25)
    }
}

fn pick_distinct(r: &mut Rng, pool: &[String], k: usize) -> Option<Vec<String>> {
    if pool.len() < k {
        return None;
    }
    let mut p = pool.to_vec();
    let mut out = Vec::new();
    for _ in 0..k {
        let i = r.below(p.len());
        out.push(p.swap_remove(i));
    }
    Some(out)
}

fn case_mix(r: &mut Rng, name: &str) -> String {
    if r.chance(1, 6) {
        name.to_uppercase()
    } else {
        name.to_string()
    }
}

/// a call of a built-in gate on the given qubit names (formal names inside a gate body,
/// `reg[i]` / `reg` at top level); `whole` allows a whole-register argument
pub fn gen_builtin_call(r: &mut Rng, qubits: &[String], regs: &[String], params: &[(String, f64)]) -> Option<String> {
    let nctrl = if r.chance(1, 3) { r.range(1, 2) } else { 0 };
    let prefix = "c".repeat(nctrl);
    let kind = r.below(5);
    let (name, ntarget, nparam) = match kind {
        0 => (*r.pick(&ONE_Q[..]), 1, 0),
        1 => (*r.pick(&ROT1[..]), 1, 1),
        2 => (*r.pick(&ROT2[..]), 2, 1),
        3 => (*r.pick(&TWO_Q[..]), 2, 0),
        _ => {
            if r.chance(1, 2) {
                ("u2", 1, 2)
            } else {
                ("u3", 1, 3)
            }
        }
    };
    let ps: Vec<String> = (0..nparam).map(|_| gen_expr(r, params, 2).0).collect();
    // whole-register form for uncontrolled one-qubit gates without parameters
    if nctrl == 0 && nparam == 0 && ntarget == 1 && !regs.is_empty() && r.chance(1, 4) {
        return Some(format!("{} {};", case_mix(r, name), r.pick(regs)));
    }
    // two-target gates take both targets as separate arguments (their masks are OR-ed)
    let qs = pick_distinct(r, qubits, nctrl + ntarget)?;
    let pstr = if ps.is_empty() { String::new() } else { format!("({})", ps.join(",")) };
    Some(format!("{}{}{} {};", prefix, case_mix(r, name), pstr, qs.join(",")))
}

pub struct Program {
    pub decls: Vec<String>,
    pub stmts: Vec<String>,
    pub env: Env,
}

const NAMES: [&str; 8] = ["q", "r", "anc", "data", "x1", "_t", "Reg", "w"];
const CNAMES: [&str; 5] = ["c", "m", "res", "out", "k"];
const GNAMES: [&str; 6] = ["foo", "bar", "majority", "g2", "ccfoo", "h2g"];

pub fn gen_program(r: &mut Rng, max_q: usize, with_nonunitary: bool) -> Program {
    let mut env = Env { qregs: vec![], cregs: vec![], gates: vec![] };
    let mut decls = Vec::new();
    let nreg = r.range(1, 3);
    let mut names: Vec<&str> = NAMES.to_vec();
    let mut total = 0;
    for _ in 0..nreg {
        let s = r.range(1, 3);
        if total + s > max_q {
            break;
        }
        let n = names.swap_remove(r.below(names.len())).to_string();
        decls.push(format!("qreg {n}[{s}];"));
        env.qregs.push((n, s));
        total += s;
        // interleave a creg now and then
        if r.chance(1, 2) && env.cregs.len() < 2 {
            let cn = CNAMES[env.cregs.len() * 2 + r.below(2)].to_string();
            let cs = r.range(1, 3);
            decls.push(format!("creg {cn}[{cs}];"));
            env.cregs.push((cn, cs));
        }
    }
    if env.qregs.is_empty() {
        decls.push("qreg q[2];".into());
        env.qregs.push(("q".into(), 2));
    }
    if with_nonunitary && env.cregs.len() == 2 && r.chance(1, 2) {
        // a third classical register: the middle one is then neither the first nor the last of the classical bits
        let cs = r.range(1, 2);
        decls.push(format!("creg k[{cs}];"));
        env.cregs.push(("k".to_string(), cs));
    }
    // gate definitions
    let ngates = r.below(4);
    let mut gnames: Vec<&str> = GNAMES.to_vec();
    for _ in 0..ngates {
        let gname = gnames.swap_remove(r.below(gnames.len())).to_string();
        let np = r.below(3);
        let nqa = r.range(1, 3.min(env.nq()));
        let params: Vec<(String, f64)> = (0..np).map(|i| (["theta", "phi", "lam"][i].to_string(), 0.3 + i as f64)).collect();
        let formals: Vec<String> = (0..nqa).map(|i| ["a", "b", "cc"][i].to_string()).collect();
        let mut body = Vec::new();
        for _ in 0..r.range(1, 4) {
            // nested call of an earlier gate, or a built-in
            if !env.gates.is_empty() && r.chance(1, 2) {
                let (gn, gp, gq) = r.pick(&env.gates).clone();
                if let Some(qs) = pick_distinct(r, &formals, gq) {
                    let ps: Vec<String> = (0..gp).map(|_| gen_expr(r, &params, 1).0).collect();
                    let pstr = if gp == 0 { String::new() } else { format!("({})", ps.join(",")) };
                    body.push(format!("{gn}{pstr} {};", qs.join(",")));
                    // the same gate once more, with other actual parameters / qubits (each expansion
                    // must bind its own actuals)
                    if r.chance(1, 2) {
                        if let Some(qs2) = pick_distinct(r, &formals, gq) {
                            let ps2: Vec<String> = (0..gp).map(|_| gen_expr(r, &params, 1).0).collect();
                            let pstr2 = if gp == 0 { String::new() } else { format!("({})", ps2.join(",")) };
                            body.push(format!("{gn}{pstr2} {};", qs2.join(",")));
                        }
                    }
                    continue;
                }
            }
            if let Some(c) = gen_builtin_call(r, &formals, &[], &params) {
                body.push(c);
            }
        }
        let pdecl = if np == 0 { String::new() } else { format!("({})", params.iter().map(|p| p.0.clone()).collect::<Vec<_>>().join(",")) };
        decls.push(format!("gate {gname}{pdecl} {} {{ {} }}", formals.join(","), body.join(" ")));
        env.gates.push((gname, np, nqa));
    }
    // statements
    let mut stmts = Vec::new();
    let qubits = env.qubits();
    let regs: Vec<String> = env.qregs.iter().map(|r| r.0.clone()).collect();
    for _ in 0..r.range(2, 9) {
        let k = r.below(if with_nonunitary && !env.cregs.is_empty() { 11 } else { 6 });
        match k {
            0..=3 => {
                if let Some(c) = gen_builtin_call(r, &qubits, &regs, &[]) {
                    if r.chance(1, 8) {
                        // the same statement twice in a row (two statements, each to be executed)
                        stmts.push(c.clone());
                    }
                    stmts.push(c);
                }
            }
            4 => {
                if !env.gates.is_empty() {
                    let (gn, gp, gq) = r.pick(&env.gates).clone();
                    if let Some(qs) = pick_distinct(r, &qubits, gq) {
                        let ps: Vec<String> = (0..gp).map(|_| gen_expr(r, &[], 2).0).collect();
                        let pstr = if gp == 0 { String::new() } else { format!("({})", ps.join(",")) };
                        stmts.push(format!("{gn}{pstr} {};", qs.join(",")));
                    }
                } else {
                    stmts.push(format!("barrier {};", r.pick(&regs)));
                }
            }
            5 => stmts.push(format!("barrier {};", r.pick(&regs))),
            6 => {
                // measure: bit form or register form (sizes must match)
                let (cn, cs) = r.pick(&env.cregs).clone();
                if let Some((qn, _)) = env.qregs.iter().find(|q| q.1 == cs) {
                    if r.chance(1, 2) {
                        stmts.push(format!("measure {qn} -> {cn};"));
                        continue;
                    }
                }
                stmts.push(format!("measure {} -> {cn}[{}];", r.pick(&qubits), r.below(cs)));
            }
            7 | 8 => {
                let (cn, cs) = r.pick(&env.cregs).clone();
                let v = r.below(1 << cs);
                if let Some(c) = gen_builtin_call(r, &qubits, &regs, &[]) {
                    stmts.push(format!("if({cn}=={v}) {c}"));
                }
            }
            10 if env.cregs.len() >= 3 && r.chance(1, 2) => {
                // a guard on the middle classical register while a later register holds a 1
                let (c2, s2) = env.cregs[1].clone();
                let (c3, _) = env.cregs[2].clone();
                let qa = r.pick(&qubits).clone();
                stmts.push(format!("reset {qa};"));
                stmts.push(format!("x {qa};"));
                stmts.push(format!("measure {qa} -> {c3}[0];"));
                let v = if r.chance(2, 3) { 0 } else { r.below(1 << s2) };
                stmts.push(format!("if({c2}=={v}) x {};", r.pick(&qubits)));
            }
            10 => {
                // guard chain: two `if`s on the same classical register with nothing but a bit-form measurement of a
                // qubit in a known state between them (the second guard has to see the value the measurement left)
                let (cn, cs) = r.pick(&env.cregs).clone();
                let j = r.below(cs);
                let qa = r.pick(&qubits).clone();
                if r.chance(1, 3) {
                    // twin guards: the same condition twice, with unconditional gates on the same qubit in between that
                    // do not commute with the guarded ones (the order guarded / plain / guarded is observable)
                    let v = if r.chance(2, 3) { 0 } else { r.below(1 << cs) };
                    stmts.push(format!("if({cn}=={v}) x {qa};"));
                    stmts.push(format!("h {qa};"));
                    if r.chance(1, 2) {
                        stmts.push(format!("t {qa};"));
                    }
                    stmts.push(format!("if({cn}=={v}) x {qa};"));
                    stmts.push(format!("h {qa};"));
                    continue;
                }
                let vals = [0usize, 1 << j, r.below(1 << cs), (1usize << cs) - 1];
                let (v0, v1) = (*r.pick(&vals[..]), *r.pick(&vals[..]));
                stmts.push(format!("reset {qa};"));
                if r.chance(2, 3) {
                    stmts.push(format!("x {qa};"));
                }
                stmts.push(format!("if({cn}=={v0}) x {};", r.pick(&qubits)));
                stmts.push(format!("measure {qa} -> {cn}[{j}];"));
                stmts.push(format!("if({cn}=={v1}) x {};", r.pick(&qubits)));
                if r.chance(1, 2) {
                    stmts.push(format!("if({cn}=={}) x {};", *r.pick(&vals[..]), r.pick(&qubits)));
                }
            }
            _ => {
                if r.chance(1, 3) {
                    stmts.push(format!("reset {};", r.pick(&regs)));
                } else {
                    stmts.push(format!("reset {};", r.pick(&qubits)));
                }
            }
        }
    }
    if r.chance(1, 5) {
        // a built-in name that is shadowed by a user gate only later in the text: the built-in applies until the definition
        // is reached, the user gate from there on (statements are interpreted strictly in text order)
        let b = *r.pick(&["sdg", "tdg", "y"][..]);
        let q = r.pick(&qubits).clone();
        stmts.push(format!("{b} {q};"));
        stmts.push(format!("gate {b} a {{ h a; t a; }}"));
        stmts.push(format!("{b} {q};"));
        if r.chance(1, 2) {
            stmts.push(format!("h {q};"));
        }
    }
    if with_nonunitary && r.chance(1, 3) {
        // a classical register declared late, right before its first use (when the program is fed in chunks, the cut
        // often falls before it: the register is then declared and used in the same later chunk, on top of a session
        // that already has - usually different numbers of - qubits and classical bits)
        let cs = r.range(1, 2);
        let cn = "lt".to_string();
        stmts.push(format!("creg {cn}[{cs}];"));
        env.cregs.push((cn.clone(), cs));
        stmts.push(format!("x {};", r.pick(&qubits)));
        stmts.push(format!("measure {} -> {cn}[{}];", r.pick(&qubits), r.below(cs)));
        if let Some(c) = gen_builtin_call(r, &qubits, &regs, &[]) {
            stmts.push(format!("if({cn}=={}) {c}", r.below(1 << cs)));
        }
    }
    Program { decls, stmts, env }
}

/// one planted rule violation: (statement text, expected error variant)
pub fn plant(r: &mut Rng, env: &Env) -> (String, &'static str) {
    let qubits = env.qubits();
    let q0 = qubits[0].clone();
    // the planted statement may stand anywhere: a register declared late (`lt`) is not yet known there
    let early_cregs: Vec<(String, usize)> = env.cregs.iter().filter(|c| c.0 != "lt").cloned().collect();
    let (qn, qs) = env.qregs[0].clone();
    let kind = r.below(46);
    // control-overlap plants carry extra weight (several shapes share one error variant)
    let kind = if (28..34).contains(&kind) { 20 } else { kind };
    match kind {
        20 => {
            // control inside a whole-register target (multi-bit target)
            let g = *r.pick(&["cx", "ch", "ch", "ch", "cz", "cy", "ccx", "cs", "cch"][..]);
            let extra = if (g == "ccx" || g == "cch") && qubits.len() >= 2 { format!("{},", qubits[qubits.len() - 1]) } else if g == "ccx" || g == "cch" { format!("{q0},") } else { String::new() };
            (format!("{g} {extra}{}[{}],{qn};", qn, r.below(qs)), "InvalidControlMask")
        }
        21 => {
            if qubits.len() >= 2 {
                (format!("cswap {},{},{};", qubits[0], qubits[0], qubits[1]), "InvalidControlMask")
            } else {
                (format!("crz(0.3) {q0},{q0};"), "InvalidControlMask")
            }
        }
        22 => {
            if let Some((gn, gp, gq)) = env.gates.first() {
                // wrong number of parameters for a user-defined gate
                let ps: Vec<String> = (0..gp + 1).map(|i| format!("0.{}", i + 1)).collect();
                if qubits.len() >= *gq {
                    return (format!("{gn}({}) {};", ps.join(","), qubits[..*gq].join(",")), "WrongArgNumber");
                }
            }
            (format!("u3(1,2) {q0};"), "WrongArgNumber")
        }
        23 => {
            if let Some((gn, gp, gq)) = env.gates.first() {
                let ps: Vec<String> = (0..*gp).map(|i| format!("0.{}", i + 1)).collect();
                let pstr = if *gp == 0 { String::new() } else { format!("({})", ps.join(",")) };
                if qubits.len() >= gq + 1 {
                    return (format!("{gn}{pstr} {};", qubits[..gq + 1].join(",")), "WrongRegNumber");
                }
            }
            (format!("h;").replace("h;", &format!("swap {q0};")), "WrongRegNumber")
        }
        24 => ("gate selfrec a { selfrec a; }\nselfrec ".to_string() + &q0 + ";", "MacroError"),
        25 => ("gate ra a { rb a; }\ngate rb a { ra a; }\nra ".to_string() + &q0 + ";", "MacroError"),
        26 => {
            if r.chance(1, 2) {
                // a parameter name used as a qubit operand inside a gate body (then called)
                (format!("gate confp(t) a {{ rx(t) t; }}\nconfp(0.5) {q0};"), "MacroError")
            } else {
                (format!("reset {qn}[{}];", qs + 1), "IdxOutOfRange")
            }
        }
        27 => {
            if let Some((cn, cs)) = early_cregs.first() {
                (format!("measure {q0} -> {cn}[{}];", cs + r.below(2)), "IdxOutOfRange")
            } else {
                (format!("measure {q0} -> nosuchc[0];"), "NoCReg")
            }
        }
        34 | 35 => {
            // a cycle of gate definitions that the applied gate leads into but is not part of
            let n = 2 + r.below(3);
            let mut src = String::from("gate cyin a { cy0 a; }\n");
            for i in 0..n {
                src += &format!("gate cy{i} a {{ h a; cy{} a; }}\n", (i + 1) % n);
            }
            (src + &format!("cyin {q0};"), "MacroError")
        }
        36 | 37 => {
            // an index far beyond the register: 64 (the word size) or more, also when idx % 64 is a valid index
            let idx = 64 * (1 + r.below(3)) + r.below(qs + 1);
            (format!("x {qn}[{idx}];"), "IdxOutOfRange")
        }
        38 | 39 => {
            if let Some((cn, cs)) = early_cregs.first() {
                let idx = 64 * (1 + r.below(2)) + r.below(*cs);
                (format!("measure {q0} -> {cn}[{idx}];"), "IdxOutOfRange")
            } else {
                (format!("reset {qn}[{}];", 64 + r.below(qs)), "IdxOutOfRange")
            }
        }
        40 | 41 | 42 => {
            // the name of a formal parameter of a gate that was CALLED before, used outside any gate: it is unbound there
            // (an evaluation context that keeps bindings from earlier calls would accept it)
            let g = *r.pick(&["rx", "ry", "rz", "u1"][..]);
            let p = *r.pick(&["theta", "phi", "lam", "t"][..]);
            (format!("gate leakg({p}) a {{ {g}({p}) a; }}\nleakg(0.25) {q0};\n{g}({p}*2) {q0};"), "UnevaluatedArgument")
        }
        43 | 44 | 45 => {
            // the same qubit given twice to a two-qubit gate: one target bit instead of two
            let g = *r.pick(&["swap", "sqrt_swap", "i_swap", "sqrt_i_swap", "rxx(0.4)", "ryy(0.4)", "rzz(0.4)", "cswap"][..]);
            if g == "cswap" && qubits.len() >= 2 {
                (format!("cswap {},{},{};", qubits[1], q0, q0), "WrongRegNumber")
            } else if g == "cswap" {
                (format!("swap {q0},{q0};"), "WrongRegNumber")
            } else if r.chance(1, 3) {
                (format!("gate dupq a,b {{ {g} a,b; }}\ndupq {q0},{q0};"), "WrongRegNumber")
            } else {
                (format!("{g} {q0},{q0};"), "WrongRegNumber")
            }
        }
        0 => ("h nosuch[0];".into(), "NoQReg"),
        1 => ("reset nosuch;".into(), "NoQReg"),
        2 => (format!("measure {q0} -> nosuchc[0];"), "NoCReg"),
        3 => (format!("if(nosuchc==1) x {q0};"), "NoCReg"),
        4 => (format!("x {qn}[{}];", qs + r.below(3)), "IdxOutOfRange"),
        5 => (format!("qreg {qn}[1];"), "DupQReg"),
        6 => (format!("creg {qn}[1];"), "DupQReg"),
        7 => (format!("frobnicate {q0};"), "UnknownGate"),
        8 => (format!("rx(1,2) {q0};"), "WrongArgNumber"),
        9 => (format!("x(0.5) {q0};"), "WrongArgNumber"),
        10 => {
            if qubits.len() >= 2 {
                (format!("rx(1) {},{};", qubits[0], qubits[1]), "WrongRegNumber")
            } else {
                (format!("swap {q0};"), "WrongRegNumber")
            }
        }
        11 => (format!("cx {q0},{q0};"), "InvalidControlMask"),
        12 => (format!("rx(2*undefinedvar) {q0};"), "UnevaluatedArgument"),
        13 => ("gate badg a { h a[0]; }".into(), "MacroError"),
        14 => ("gate badg2 a { h zz; }".into(), "MacroError"),
        15 => ("gate badg3(t) a { rx(u) a; }".into(), "MacroError"),
        16 => {
            if let Some((cn, _)) = early_cregs.first() {
                (format!("if({cn}==0) measure {q0} -> {cn}[0];"), "DisallowedNodeInIf")
            } else {
                ("h nosuch[0];".into(), "NoQReg")
            }
        }
        17 => ("qreg averyveryveryveryveryverylongidentifier0123456789[1];".into(), "IdentIsTooLarge"),
        18 => ("qreg big[63];".into(), "RegisterIsTooLarge"),
        _ => {
            if let (Some((cn, cs)), true) = (early_cregs.first(), true) {
                if let Some((qn2, _)) = env.qregs.iter().find(|q| q.1 != *cs) {
                    return (format!("measure {qn2} -> {cn};"), "UnmatchedRegSize");
                }
            }
            ("gate dupg a { h a; } gate dupg a { x a; }".into(), "MacroAlreadyDefined")
        }
    }
}
