//! Operator-construction programs (postfix) and their evaluation on the real crate.
//!
//! The same program text is evaluated by the Lean model (`Driver.lean`), so both sides
//! *construct* the operator through their own constructors / `c` / `dgr` / `*`.

use std::fmt::Write;

use qvnt::prelude::*;

use crate::rng::Rng;

#[derive(Clone, Debug, PartialEq)]
pub enum Tok {
    Id,
    /// x y z s t h qft qfts swap sqrt_swap i_swap sqrt_i_swap
    G(&'static str, usize),
    /// rx ry rz rxx ryy rzz u1
    R(&'static str, f64, usize),
    U2(f64, f64, usize),
    U3(f64, f64, f64, usize),
    C(usize),
    Dgr,
    /// a b mul  =  a * b
    Mul,
    /// a b mulassign: a *= b
    MulAssign,
    /// a b append: a.append(&mut b)
    Append,
    /// a b pushall: for g in b { a.push_back(g) }
    PushAll,
    /// a b pushfront: for g in b.rev() { a.push_front(g) }  (= b * a; the ring buffer of `a` wraps around)
    PushFront,
    /// a b cycle: a * b assembled by pop_front / push_back rotations of the queue (ring buffer wraps)
    Cycle,
}

pub type Prog = Vec<Tok>;

pub fn prog_text(p: &Prog) -> String {
    let mut s = String::new();
    for t in p {
        if !s.is_empty() {
            s.push(' ');
        }
        match t {
            Tok::Id => s.push_str("id"),
            Tok::G(k, m) => write!(s, "{k} {m}").unwrap(),
            Tok::R(k, a, m) => write!(s, "{k} {} {m}", a.to_bits()).unwrap(),
            Tok::U2(a, b, m) => write!(s, "u2 {} {} {m}", a.to_bits(), b.to_bits()).unwrap(),
            Tok::U3(a, b, c, m) => {
                write!(s, "u3 {} {} {} {m}", a.to_bits(), b.to_bits(), c.to_bits()).unwrap()
            }
            Tok::C(m) => write!(s, "c {m}").unwrap(),
            Tok::Dgr => s.push_str("dgr"),
            Tok::Mul => s.push_str("mul"),
            Tok::MulAssign => s.push_str("mulassign"),
            Tok::Append => s.push_str("append"),
            Tok::PushAll => s.push_str("pushall"),
            Tok::PushFront => s.push_str("pushfront"),
            Tok::Cycle => s.push_str("cycle"),
        }
    }
    s
}

pub fn parse_prog(text: &str) -> Option<Prog> {
    let toks: Vec<&str> = text.split_whitespace().collect();
    let mut i = 0;
    let mut p = Vec::new();
    let fl = |s: &str| s.parse::<u64>().ok().map(f64::from_bits);
    let us = |s: &str| s.parse::<usize>().ok();
    const G: [&str; 12] = [
        "x", "y", "z", "s", "t", "h", "qft", "qfts", "swap", "sqrt_swap", "i_swap", "sqrt_i_swap",
    ];
    const R: [&str; 7] = ["rx", "ry", "rz", "rxx", "ryy", "rzz", "u1"];
    while i < toks.len() {
        let t = toks[i];
        if t == "id" {
            p.push(Tok::Id);
            i += 1;
        } else if let Some(k) = G.iter().find(|k| **k == t) {
            p.push(Tok::G(k, us(toks.get(i + 1)?)?));
            i += 2;
        } else if let Some(k) = R.iter().find(|k| **k == t) {
            p.push(Tok::R(k, fl(toks.get(i + 1)?)?, us(toks.get(i + 2)?)?));
            i += 3;
        } else if t == "u2" {
            p.push(Tok::U2(fl(toks.get(i + 1)?)?, fl(toks.get(i + 2)?)?, us(toks.get(i + 3)?)?));
            i += 4;
        } else if t == "u3" {
            p.push(Tok::U3(
                fl(toks.get(i + 1)?)?,
                fl(toks.get(i + 2)?)?,
                fl(toks.get(i + 3)?)?,
                us(toks.get(i + 4)?)?,
            ));
            i += 5;
        } else if t == "c" {
            p.push(Tok::C(us(toks.get(i + 1)?)?));
            i += 2;
        } else {
            p.push(match t {
                "dgr" => Tok::Dgr,
                "mul" => Tok::Mul,
                "mulassign" => Tok::MulAssign,
                "append" => Tok::Append,
                "pushall" => Tok::PushAll,
                "pushfront" => Tok::PushFront,
                "cycle" => Tok::Cycle,
                _ => return None,
            });
            i += 1;
        }
    }
    Some(p)
}

/// Outcome of building an operator.
pub enum Built {
    Ok(MultiOp),
    /// `.c()` returned `None`
    Refused,
    /// a constructor panicked (`expect("Mask should contain k bit!")`)
    Panic(String),
}

fn leaf(t: &Tok) -> MultiOp {
    match t {
        Tok::Id => op::id(),
        Tok::G(k, m) => match *k {
            "x" => op::x(*m),
            "y" => op::y(*m),
            "z" => op::z(*m),
            "s" => op::s(*m),
            "t" => op::t(*m),
            "h" => op::h(*m),
            "qft" => op::qft(*m),
            "qfts" => op::qft_swapped(*m),
            "swap" => op::swap(*m),
            "sqrt_swap" => op::sqrt_swap(*m),
            "i_swap" => op::i_swap(*m),
            "sqrt_i_swap" => op::sqrt_i_swap(*m),
            _ => unreachable!(),
        },
        Tok::R(k, a, m) => match *k {
            "rx" => op::rx(*a, *m),
            "ry" => op::ry(*a, *m),
            "rz" => op::rz(*a, *m),
            "rxx" => op::rxx(*a, *m),
            "ryy" => op::ryy(*a, *m),
            "rzz" => op::rzz(*a, *m),
            "u1" => op::u1(*a, *m),
            _ => unreachable!(),
        },
        Tok::U2(a, b, m) => op::u2(*a, *b, *m),
        Tok::U3(a, b, c, m) => op::u3(*a, *b, *c, *m),
        _ => unreachable!(),
    }
}

pub fn build(p: &Prog) -> Built {
    let r = std::panic::catch_unwind(|| {
        let mut st: Vec<MultiOp> = Vec::new();
        for t in p {
            match t {
                Tok::C(m) => {
                    let a = st.pop().expect("stack");
                    match a.c(*m) {
                        Some(o) => st.push(o),
                        None => return None,
                    }
                }
                Tok::Dgr => {
                    let a = st.pop().expect("stack");
                    st.push(a.dgr());
                }
                Tok::Mul => {
                    let b = st.pop().expect("stack");
                    let a = st.pop().expect("stack");
                    st.push(a * b);
                }
                Tok::MulAssign => {
                    let b = st.pop().expect("stack");
                    let mut a = st.pop().expect("stack");
                    a *= b;
                    st.push(a);
                }
                Tok::Append => {
                    let mut b = st.pop().expect("stack");
                    let mut a = st.pop().expect("stack");
                    a.append(&mut b);
                    st.push(a);
                }
                Tok::PushAll => {
                    let b = st.pop().expect("stack");
                    let mut a = st.pop().expect("stack");
                    for g in b.iter() {
                        a.push_back(g.clone());
                    }
                    st.push(a);
                }
                Tok::PushFront => {
                    let b = st.pop().expect("stack");
                    let mut a = st.pop().expect("stack");
                    for g in b.iter().rev() {
                        a.push_front(g.clone());
                    }
                    st.push(a);
                }
                Tok::Cycle => {
                    // b is pushed to the back, then the whole queue is rotated once around through
                    // pop_front / push_back: same element order, physically wrapped storage
                    let b = st.pop().expect("stack");
                    let mut a = st.pop().expect("stack");
                    for g in b.iter() {
                        a.push_back(g.clone());
                    }
                    let n = a.len();
                    for _ in 0..n {
                        if let Some(g) = a.pop_front() {
                            a.push_back(g);
                        }
                    }
                    if n > 1 {
                        a.rotate_left(1);
                        a.rotate_right(1);
                    }
                    st.push(a);
                }
                t => st.push(leaf(t)),
            }
        }
        Some(st.pop().expect("stack"))
    });
    match r {
        Ok(Some(o)) => Built::Ok(o),
        Ok(None) => Built::Refused,
        Err(e) => Built::Panic(crate::panic_msg(&e)),
    }
}

/// Names of the queue elements with the parameter part removed (`RX1(0.7)` -> `RX1`).
pub fn names(o: &MultiOp) -> String {
    let v: Vec<String> = o
        .iter()
        .map(|g| {
            let n = g.name();
            match n.find('(') {
                Some(i) if !n.starts_with("sqrt(") && !n.contains("_sqrt(") => n[..i].to_string(),
                _ => n,
            }
        })
        .collect();
    if v.is_empty() {
        "-".to_string()
    } else {
        v.join(",")
    }
}

pub fn built_obs(b: &Built) -> String {
    match b {
        Built::Ok(o) => format!("ok {} {} {}", o.len(), o.act_on(), names(o)),
        Built::Refused => "refused".to_string(),
        Built::Panic(m) => format!("panic {}", m.replace(' ', "_")),
    }
}

// ---------------------------------------------------------------------------------------
// generation

pub struct GenCfg {
    /// masks are drawn from the low `bits` bits
    pub bits: usize,
    pub max_depth: usize,
    /// probability (per mille) of a deliberately inadmissible mask / overlapping control
    pub bad_permille: usize,
}

const ONE: [&str; 5] = ["x", "y", "z", "s", "t"];
const ROT1: [&str; 4] = ["rx", "ry", "rz", "u1"];
const ROT2: [&str; 3] = ["rxx", "ryy", "rzz"];
const TWO: [&str; 4] = ["swap", "sqrt_swap", "i_swap", "sqrt_i_swap"];
const MANY: [&str; 3] = ["h", "qft", "qfts"];

pub fn gen_leaf(r: &mut Rng, cfg: &GenCfg, within: usize) -> Tok {
    let nbits = within.count_ones() as usize;
    let bad = r.chance(cfg.bad_permille, 1000);
    loop {
        match r.below(8) {
            0 => {
                if r.chance(1, 4) {
                    return Tok::Id;
                }
            }
            1 => {
                let m = r.submask(within);
                return Tok::G(*r.pick(&ONE[..]), m);
            }
            2 => {
                let k = if bad { *r.pick(&[0usize, 2, 3]) } else { 1 };
                if let Some(m) = r.kbits(within, k) {
                    return Tok::R(*r.pick(&ROT1[..]), r.angle(), m);
                }
            }
            3 => {
                let k = if bad { *r.pick(&[0usize, 1, 3]) } else { 2 };
                if let Some(m) = r.kbits(within, k) {
                    return Tok::R(*r.pick(&ROT2[..]), r.angle(), m);
                }
            }
            4 => {
                let k = if bad { *r.pick(&[0usize, 1, 3]) } else { 2 };
                if let Some(m) = r.kbits(within, k) {
                    return Tok::G(*r.pick(&TWO[..]), m);
                }
            }
            5 => {
                let m = r.submask(within);
                return Tok::G(*r.pick(&MANY[..]), m);
            }
            6 => {
                let k = if bad { *r.pick(&[0usize, 2]) } else { 1 };
                if let Some(m) = r.kbits(within, k) {
                    return if r.chance(1, 2) {
                        Tok::U2(r.angle(), r.angle(), m)
                    } else {
                        Tok::U3(r.angle(), r.angle(), r.angle(), m)
                    };
                }
            }
            _ => {
                if nbits >= 1 {
                    let m = r.kbits(within, 1).unwrap();
                    return Tok::G(*r.pick(&["h", "x", "z"][..]), m);
                }
            }
        }
    }
}

/// act_on of a program when it builds (None otherwise), computed on the real crate
fn acts(p: &Prog) -> Option<usize> {
    match build(p) {
        Built::Ok(o) => Some(o.act_on()),
        _ => None,
    }
}

pub fn gen_prog(r: &mut Rng, cfg: &GenCfg, depth: usize) -> Prog {
    let all = if cfg.bits >= 64 { !0usize } else { (1usize << cfg.bits) - 1 };
    let choice = if depth >= cfg.max_depth { 0 } else { r.below(10) };
    match choice {
        0..=3 => vec![gen_leaf(r, cfg, all)],
        4..=5 => {
            // controlled
            let mut p = gen_prog(r, cfg, depth + 1);
            let free = match acts(&p) {
                Some(a) => all & !a,
                None => all,
            };
            let bad = r.chance(cfg.bad_permille, 1000);
            let m = if bad || free == 0 {
                r.submask(all)
            } else {
                let k = r.range(1, 2.min(free.count_ones() as usize));
                r.kbits(free, k).unwrap()
            };
            p.push(Tok::C(m));
            p
        }
        6 => {
            let mut p = gen_prog(r, cfg, depth + 1);
            p.push(Tok::Dgr);
            p
        }
        _ => {
            let mut p = gen_prog(r, cfg, depth + 1);
            let k = r.range(1, 3);
            for _ in 0..k {
                p.extend(gen_prog(r, cfg, depth + 1));
                p.push(match r.below(9) {
                    0 => Tok::MulAssign,
                    1 => Tok::Append,
                    2 => Tok::PushAll,
                    3 | 4 => Tok::PushFront,
                    5 => Tok::Cycle,
                    _ => Tok::Mul,
                });
            }
            p
        }
    }
}
