//! Trace writer: one command per line, `cmd args | observation`.

use std::fmt::Write;

pub struct Trace {
    pub buf: String,
    pub cases: usize,
    pub lines: usize,
}

pub fn fbits(x: f64) -> String {
    x.to_bits().to_string()
}

pub type C = num_complex::Complex<f64>;

pub fn cvec(v: &[C]) -> String {
    let mut s = String::with_capacity(v.len() * 40);
    write!(s, "{}", v.len()).unwrap();
    for z in v {
        write!(s, " {} {}", z.re.to_bits(), z.im.to_bits()).unwrap();
    }
    s
}

pub fn fvec(v: &[f64]) -> String {
    let mut s = String::new();
    write!(s, "{}", v.len()).unwrap();
    for z in v {
        write!(s, " {}", z.to_bits()).unwrap();
    }
    s
}

pub fn nvec(v: &[usize]) -> String {
    let mut s = String::new();
    write!(s, "{}", v.len()).unwrap();
    for z in v {
        write!(s, " {}", z).unwrap();
    }
    s
}

impl Trace {
    pub fn new() -> Self {
        Trace { buf: String::new(), cases: 0, lines: 0 }
    }
    pub fn case(&mut self, suite: &str, seed: u64, idx: usize, tags: &str) {
        self.cases += 1;
        writeln!(self.buf, "case {suite}:{seed}:{idx} {tags}").unwrap();
    }
    pub fn line(&mut self, cmd: &str, obs: &str) {
        self.lines += 1;
        debug_assert!(!cmd.contains('|') && !cmd.contains('\n') && !obs.contains('\n'));
        writeln!(self.buf, "{cmd} | {obs}").unwrap();
    }
    pub fn cmd(&mut self, cmd: &str) {
        self.lines += 1;
        writeln!(self.buf, "{cmd} |").unwrap();
    }
}
