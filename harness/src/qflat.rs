//! C10: programs with user-defined gates together with their *flattened* form (every user gate
//! expanded by the generator itself, formal qubits and parameters replaced by the actual ones,
//! parameter expressions replaced by their values). Both texts go through the real interpreter;
//! the final states must agree. The oracle compares the implementation with itself, so a kernel
//! defect does not raise it, while a wrong binding / evaluation / expansion order does.

use crate::rng::Rng;

#[derive(Clone, Debug)]
pub enum Ex {
    Num(f64),
    Pi,
    Param(usize),
    Add(Box<Ex>, Box<Ex>),
    Sub(Box<Ex>, Box<Ex>),
    Mul(Box<Ex>, Box<Ex>),
    Div(Box<Ex>, Box<Ex>),
    Neg(Box<Ex>),
    Fun(&'static str, Box<Ex>),
}

fn num_text(v: f64) -> String {
    // shortest representation that parses back to the same f64
    let s = format!("{v:?}");
    if v < 0.0 {
        format!("(0-{})", &s[1..])
    } else {
        s
    }
}

impl Ex {
    pub fn text(&self, names: &[String]) -> String {
        match self {
            Ex::Num(v) => num_text(*v),
            Ex::Pi => "pi".into(),
            Ex::Param(i) => names[*i].clone(),
            Ex::Add(a, b) => format!("({}+{})", a.text(names), b.text(names)),
            Ex::Sub(a, b) => format!("({}-{})", a.text(names), b.text(names)),
            Ex::Mul(a, b) => format!("({}*{})", a.text(names), b.text(names)),
            Ex::Div(a, b) => format!("({}/{})", a.text(names), b.text(names)),
            Ex::Neg(a) => format!("(-{})", a.text(names)),
            Ex::Fun(f, a) => format!("{f}({})", a.text(names)),
        }
    }
    pub fn eval(&self, vals: &[f64]) -> f64 {
        match self {
            Ex::Num(v) => *v,
            Ex::Pi => std::f64::consts::PI,
            Ex::Param(i) => vals[*i],
            Ex::Add(a, b) => a.eval(vals) + b.eval(vals),
            Ex::Sub(a, b) => a.eval(vals) - b.eval(vals),
            Ex::Mul(a, b) => a.eval(vals) * b.eval(vals),
            Ex::Div(a, b) => a.eval(vals) / b.eval(vals),
            Ex::Neg(a) => -a.eval(vals),
            Ex::Fun(f, a) => {
                let x = a.eval(vals);
                match *f {
                    "sqrt" => x.sqrt(),
                    "abs" => x.abs(),
                    "exp" => x.exp(),
                    "floor" => x.floor(),
                    _ => x.ceil(),
                }
            }
        }
    }
}

fn gen_ex(r: &mut Rng, nparams: usize, depth: usize) -> Ex {
    if depth == 0 || r.chance(1, 3) {
        return match r.below(5) {
            0 => Ex::Pi,
            1 | 2 if nparams > 0 => Ex::Param(r.below(nparams)),
            3 => Ex::Num((r.below(4000) as f64) / 1000.0),
            _ => Ex::Num((1 + r.below(7)) as f64),
        };
    }
    let a = Box::new(gen_ex(r, nparams, depth - 1));
    let b = Box::new(gen_ex(r, nparams, depth - 1));
    match r.below(8) {
        0 | 1 => Ex::Add(a, b),
        2 => Ex::Sub(a, b),
        3 | 4 => Ex::Mul(a, b),
        5 => Ex::Div(a, Box::new(Ex::Num((2 + r.below(6)) as f64))),
        6 => Ex::Neg(a),
        _ => Ex::Fun(*r.pick(&["abs", "floor", "ceil", "exp", "sqrt"][..]), Box::new(Ex::Fun("abs", a))),
    }
}

#[derive(Clone, Debug)]
enum Body {
    /// built-in gate name (with c prefixes), parameters, indexes of formal qubits
    Builtin(String, Vec<Ex>, Vec<usize>),
    /// index of an earlier user gate, parameters, indexes of formal qubits
    Call(usize, Vec<Ex>, Vec<usize>),
}

#[derive(Clone, Debug)]
struct Gate {
    name: String,
    params: Vec<String>,
    formals: Vec<String>,
    body: Vec<Body>,
}

fn distinct(r: &mut Rng, n: usize, k: usize) -> Option<Vec<usize>> {
    if n < k {
        return None;
    }
    let mut pool: Vec<usize> = (0..n).collect();
    let mut out = Vec::new();
    for _ in 0..k {
        let i = r.below(pool.len());
        out.push(pool.swap_remove(i));
    }
    Some(out)
}

/// (name, number of parameters, number of qubits)
const BUILTINS: [(&str, usize, usize); 14] = [
    ("x", 0, 1), ("h", 0, 1), ("z", 0, 1), ("s", 0, 1), ("t", 0, 1), ("rx", 1, 1), ("ry", 1, 1), ("rz", 1, 1),
    ("u3", 3, 1), ("u2", 2, 1), ("cx", 0, 2), ("crz", 1, 2), ("rzz", 1, 2), ("swap", 0, 2),
];

fn gen_builtin(r: &mut Rng, nparams: usize, nq: usize, avoid: &[String]) -> Option<Body> {
    for _ in 0..20 {
        let (name, np, k) = *r.pick(&BUILTINS[..]);
        if avoid.iter().any(|a| a == name || format!("c{a}") == name) {
            continue;
        }
        if let Some(qs) = distinct(r, nq, k) {
            let ps = (0..np).map(|_| gen_ex(r, nparams, 2)).collect();
            return Some(Body::Builtin(name.to_string(), ps, qs));
        }
    }
    None
}

/// statements of the expansion of one call, with concrete values and qubit names
fn expand(gates: &[Gate], b: &Body, vals: &[f64], qubits: &[String], out: &mut Vec<String>, ok: &mut bool) {
    match b {
        Body::Builtin(name, ps, qs) => {
            let vs: Vec<f64> = ps.iter().map(|e| e.eval(vals)).collect();
            if vs.iter().any(|v| !v.is_finite() || v.abs() > 1e6) {
                *ok = false;
            }
            let p = if vs.is_empty() { String::new() } else { format!("({})", vs.iter().map(|v| num_text(*v)).collect::<Vec<_>>().join(",")) };
            let q: Vec<String> = qs.iter().map(|i| qubits[*i].clone()).collect();
            out.push(format!("{name}{p} {};", q.join(",")));
        }
        Body::Call(g, ps, qs) => {
            let vs: Vec<f64> = ps.iter().map(|e| e.eval(vals)).collect();
            if vs.iter().any(|v| !v.is_finite() || v.abs() > 1e6) {
                *ok = false;
            }
            let q: Vec<String> = qs.iter().map(|i| qubits[*i].clone()).collect();
            for s in &gates[*g].body {
                expand(gates, s, &vs, &q, out, ok);
            }
        }
    }
}

fn body_text(gates: &[Gate], b: &Body, params: &[String], formals: &[String]) -> String {
    let (name, ps, qs) = match b {
        Body::Builtin(n, ps, qs) => (n.clone(), ps, qs),
        Body::Call(g, ps, qs) => (gates[*g].name.clone(), ps, qs),
    };
    let p = if ps.is_empty() { String::new() } else { format!("({})", ps.iter().map(|e| e.text(params)).collect::<Vec<_>>().join(",")) };
    let q: Vec<String> = qs.iter().map(|i| formals[*i].clone()).collect();
    format!("{name}{p} {};", q.join(","))
}

/// (program with user gates, flattened program, number of user-gate expansions, shadowing used)
pub fn gen(r: &mut Rng) -> (String, String, usize, bool) {
    loop {
        let mut decls = Vec::new();
        let mut qubits: Vec<String> = Vec::new();
        let regs = ["q", "anc", "w"];
        for reg in regs.iter().take(r.range(1, 2)) {
            let s = r.range(1, 3);
            decls.push(format!("qreg {reg}[{s}];"));
            if r.chance(1, 3) {
                decls.push(format!("creg c{reg}[{s}];"));
            }
            for i in 0..s {
                qubits.push(format!("{reg}[{i}]"));
            }
        }
        // user gates; some shadow a built-in name (their bodies then avoid that name)
        let mut gates: Vec<Gate> = Vec::new();
        let mut shadow = false;
        let ng = r.range(1, 4);
        let mut names = vec!["foo", "bar", "rot", "echo", "g2"];
        let mut shadowed: Vec<String> = Vec::new();
        for _ in 0..ng {
            let np = r.below(3);
            let nq = r.range(1, 2.min(qubits.len()));
            let name = if gates.is_empty() && r.chance(1, 3) && np == 0 && nq == 1 {
                let n = *r.pick(&["x", "h", "z"][..]);
                if shadowed.iter().any(|s| s == n) {
                    names.swap_remove(r.below(names.len())).to_string()
                } else {
                    shadow = true;
                    shadowed.push(n.to_string());
                    n.to_string()
                }
            } else {
                names.swap_remove(r.below(names.len())).to_string()
            };
            let params: Vec<String> = (0..np).map(|i| ["t", "phi", "lam"][i].to_string()).collect();
            let formals: Vec<String> = (0..nq).map(|i| ["a", "b"][i].to_string()).collect();
            let mut body = Vec::new();
            for _ in 0..r.range(1, 4) {
                let callable: Vec<usize> = (0..gates.len()).filter(|g| gates[*g].formals.len() <= nq).collect();
                if !callable.is_empty() && r.chance(1, 2) {
                    let g = *r.pick(&callable);
                    let times = if r.chance(1, 2) { 2 } else { 1 };
                    for _ in 0..times {
                        let qs = distinct(r, nq, gates[g].formals.len()).unwrap();
                        let ps = (0..gates[g].params.len()).map(|_| gen_ex(r, np, 1)).collect();
                        body.push(Body::Call(g, ps, qs));
                    }
                } else if let Some(b) = gen_builtin(r, np, nq, &shadowed) {
                    body.push(b);
                }
            }
            if body.is_empty() {
                body.push(Body::Builtin("y".into(), vec![], vec![0]));
            }
            gates.push(Gate { name, params, formals, body });
        }
        for g in &gates {
            let p = if g.params.is_empty() { String::new() } else { format!("({})", g.params.join(",")) };
            let b: Vec<String> = g.body.iter().map(|s| body_text(&gates, s, &g.params, &g.formals)).collect();
            decls.push(format!("gate {}{p} {} {{ {} }}", g.name, g.formals.join(","), b.join(" ")));
        }
        // statements
        let mut prog = Vec::new();
        let mut flat = Vec::new();
        let mut ok = true;
        let mut expansions = 0;
        let decl_flat: Vec<String> = decls.iter().filter(|d| !d.starts_with("gate ")).cloned().collect();
        for _ in 0..r.range(2, 6) {
            if r.chance(2, 3) {
                let g = r.below(gates.len());
                if let Some(qs) = distinct(r, qubits.len(), gates[g].formals.len()) {
                    let ps: Vec<Ex> = (0..gates[g].params.len()).map(|_| gen_ex(r, 0, 2)).collect();
                    let call = Body::Call(g, ps, qs);
                    prog.push(body_text(&gates, &call, &[], &qubits));
                    expand(&gates, &call, &[], &qubits, &mut flat, &mut ok);
                    expansions += 1;
                }
            } else if let Some(b) = gen_builtin(r, 0, qubits.len(), &shadowed) {
                prog.push(body_text(&gates, &b, &[], &qubits));
                expand(&gates, &b, &[], &qubits, &mut flat, &mut ok);
            }
        }
        if !ok || expansions == 0 {
            continue;
        }
        let a = decls.iter().chain(prog.iter()).cloned().collect::<Vec<_>>().join("\n");
        let b = decl_flat.iter().chain(flat.iter()).cloned().collect::<Vec<_>>().join("\n");
        return (a, b, expansions, shadow);
    }
}
