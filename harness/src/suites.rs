//! Command executor (real crate) and case generators.
//!
//! A case is a list of command lines; `exec` runs one command against the implementation
//! state and returns the observation that is written after the `|`.

use std::collections::HashMap;
use std::panic::{catch_unwind, AssertUnwindSafe};

use qvnt::prelude::*;

use crate::ops::{self, Built, GenCfg};
use crate::rng::Rng;
use crate::trace::{cvec, fvec, nvec, Trace, C};
use rand::Rng as _;

#[derive(Default)]
pub struct St {
    pub op: Option<MultiOp>,
    /// the program that built `op`: rebuilding it gives the same queue with the same physical layout
    /// (`clone()` of a VecDeque compacts its ring buffer)
    pub op_prog: Option<ops::Prog>,
    pub q: Option<QReg>,
    pub q2: Option<QReg>,
    pub c: Option<CReg>,
    pub v: Option<VReg>,
    pub i: crate::interp::ISt,
}

/// the current operator, built again from its program (same element order, same ring-buffer layout)
fn fresh_op(st: &St) -> MultiOp {
    match st.op_prog.as_ref().map(ops::build) {
        Some(Built::Ok(o)) => o,
        _ => st.op.as_ref().expect("no op").clone(),
    }
}

fn qobs(q: &QReg) -> String {
    format!("{} {} {}", q.num(), q.verif_q_mask(), cvec(q.verif_psi()))
}

fn cobs(c: &CReg) -> String {
    format!("{} {} {}", c.get(), c.num(), c.verif_q_mask())
}

fn vobs(v: &VReg) -> String {
    // `v[..]` is the union, v[i] the single bits
    let all = v[..];
    let mut bits = Vec::new();
    let mut i = 0;
    loop {
        let r = catch_unwind(AssertUnwindSafe(|| v[i]));
        match r {
            Ok(b) => bits.push(b),
            Err(_) => break,
        }
        i += 1;
        if i > 70 {
            break;
        }
    }
    format!("{} {}", all, nvec(&bits))
}

fn parse_cvec(toks: &[&str]) -> Option<Vec<C>> {
    let n: usize = toks.first()?.parse().ok()?;
    if toks.len() < 1 + 2 * n {
        return None;
    }
    let mut v = Vec::with_capacity(n);
    for k in 0..n {
        let re = f64::from_bits(toks[1 + 2 * k].parse().ok()?);
        let im = f64::from_bits(toks[2 + 2 * k].parse().ok()?);
        v.push(C { re, im });
    }
    Some(v)
}

fn exec_inner(st: &mut St, cmd: &str) -> String {
    let toks: Vec<&str> = cmd.split_whitespace().collect();
    match toks[0] {
        "inew" | "ixor" | "iadd" | "ichg" | "iprep" | "isym" | "igate" => crate::interp::exec(&mut st.i, &toks),
        "imark" | "isame" | "iexpect" | "isnap" | "iunchanged" => String::new(),
        "iexprval" => {
            // the implementation's own rz(value) on the probe state
            let v = f64::from_bits(toks[1].parse().unwrap());
            let mut q = QReg::new(1);
            q.verif_set_psi(crate::interp::probe_state(1));
            q.apply(&op::rz(v, 1));
            cvec(q.verif_psi())
        }
        "op" => {
            let prog = ops::parse_prog(&toks[1..].join(" ")).expect("bad op program");
            let b = ops::build(&prog);
            let obs = ops::built_obs(&b);
            st.op_prog = Some(prog.clone());
            st.op = match b {
                Built::Ok(o) => Some(o),
                _ => None,
            };
            obs
        }
        "qreg" => {
            let n: usize = toks[1].parse().unwrap();
            let thr: usize = toks[2].parse().unwrap();
            match QReg::new(n).num_threads(thr) {
                Some(q) => {
                    st.q = Some(q);
                    "ok".into()
                }
                None => {
                    st.q = None;
                    "none".into()
                }
            }
        }
        "qstate" => {
            let n: usize = toks[1].parse().unwrap();
            let s: usize = toks[2].parse().unwrap();
            let thr: usize = toks[3].parse().unwrap();
            match QReg::with_state(n, s).num_threads(thr) {
                Some(q) => {
                    st.q = Some(q);
                    "ok".into()
                }
                None => {
                    st.q = None;
                    "none".into()
                }
            }
        }
        "setpsi" => {
            let v = parse_cvec(&toks[1..]).expect("bad setpsi");
            st.q.as_mut().expect("no qreg").verif_set_psi(v);
            String::new()
        }
        "psi" => cvec(st.q.as_ref().expect("no qreg").verif_psi()),
        "apply" => {
            let q = st.q.as_mut().expect("no qreg");
            q.apply(st.op.as_ref().expect("no op"));
            cvec(q.verif_psi())
        }
        "applyeach" => {
            let q = st.q.as_mut().expect("no qreg");
            for g in st.op.as_ref().expect("no op").iter() {
                q.apply(g);
            }
            cvec(q.verif_psi())
        }
        "q2reg" => {
            let n: usize = toks[1].parse().unwrap();
            let thr: usize = toks[2].parse().unwrap();
            st.q2 = QReg::new(n).num_threads(thr);
            if st.q2.is_some() { "ok".into() } else { "none".into() }
        }
        "q2state" => {
            let n: usize = toks[1].parse().unwrap();
            let s: usize = toks[2].parse().unwrap();
            let thr: usize = toks[3].parse().unwrap();
            st.q2 = QReg::with_state(n, s).num_threads(thr);
            if st.q2.is_some() { "ok".into() } else { "none".into() }
        }
        "set2psi" => {
            let v = parse_cvec(&toks[1..]).expect("bad set2psi");
            st.q2.as_mut().expect("no q2").verif_set_psi(v);
            String::new()
        }
        "tensor" => {
            let a = st.q.take().expect("no qreg");
            let b = st.q2.take().expect("no q2");
            let r = if toks.get(1) == Some(&"assign") {
                let mut a = a;
                a *= b;
                a
            } else {
                a * b
            };
            let o = qobs(&r);
            st.q = Some(r);
            o
        }
        "qobs" => qobs(st.q.as_ref().expect("no qreg")),
        "setnum" => {
            let n: usize = toks[1].parse().unwrap();
            let q = st.q.as_mut().expect("no qreg");
            q.set_num(n);
            qobs(q)
        }
        "setnumnr" => {
            let n: usize = toks[1].parse().unwrap();
            let q = st.q.as_mut().expect("no qreg");
            q.verif_set_num_no_realloc(n);
            qobs(q)
        }
        "probs" => fvec(&st.q.as_ref().expect("no qreg").get_probabilities()),
        "absolute" => fvec(&[st.q.as_ref().expect("no qreg").get_absolute()]),
        "polar" => {
            let p = st.q.as_ref().expect("no qreg").get_polar();
            let flat: Vec<f64> = p.iter().flat_map(|(r, t)| [*r, *t]).collect();
            fvec(&flat)
        }
        "measure" => {
            // `measure all` = QReg::measure(); `measure <mask>` = measure_mask
            let q = st.q.as_mut().expect("no qreg");
            let _ = qvnt::verif::take_measure_log();
            if let Some(seed) = toks.get(2).and_then(|s| s.parse::<u64>().ok()) {
                qvnt::verif::seed(Some(seed));
            }
            let c = if toks[1] == "all" { q.measure() } else { q.measure_mask(toks[1].parse().unwrap()) };
            qvnt::verif::seed(None);
            let log = qvnt::verif::take_measure_log();
            let drawn = log.first().map(|x| x.1 as i64).unwrap_or(-1);
            format!("{} {} {}", cobs(&c), drawn, cvec(q.verif_psi()))
        }
        "collapse" => {
            let q = st.q.as_mut().expect("no qreg");
            q.verif_collapse_mask(toks[1].parse().unwrap(), toks[2].parse().unwrap());
            cvec(q.verif_psi())
        }
        "normalize" => {
            let q = st.q.as_mut().expect("no qreg");
            q.verif_normalize();
            cvec(q.verif_psi())
        }
        "reset" => {
            let q = st.q.as_mut().expect("no qreg");
            q.verif_reset(toks[1].parse().unwrap());
            cvec(q.verif_psi())
        }
        "resetmask" => {
            let q = st.q.as_mut().expect("no qreg");
            let _ = qvnt::verif::take_measure_log();
            if let Some(seed) = toks.get(2).and_then(|s| s.parse::<u64>().ok()) {
                qvnt::verif::seed(Some(seed));
            }
            q.verif_reset_by_mask(toks[1].parse().unwrap());
            qvnt::verif::seed(None);
            let log = qvnt::verif::take_measure_log();
            let drawn = log.first().map(|x| x.1 as i64).unwrap_or(-1);
            format!("{} {}", drawn, cvec(q.verif_psi()))
        }
        "sample" => {
            let count: usize = toks[1].parse().unwrap();
            let seed: u64 = toks[2].parse().unwrap();
            let q = st.q.as_ref().expect("no qreg");
            let cells = q.get_probabilities().len();
            // the standard-normal draws sample_all will make: for a single-threaded register
            // they are reproduced from the seeded generator; with several threads the order of
            // the draws is not reproducible, so every draw is made the same value g (constant
            // word mode), which makes the result schedule-independent and known
            if q.verif_threads() == 1 {
                qvnt::verif::seed(Some(seed));
                let mut rng = qvnt::verif::thread_rng();
                let normals: Vec<f64> = (0..cells).map(|_| rng.sample::<f64, _>(rand_distr::StandardNormal)).collect();
                qvnt::verif::seed(Some(seed));
                let h = q.sample_all(count);
                qvnt::verif::seed(None);
                format!("{} {}", fvec(&normals), nvec(&h))
            } else {
                // find a word the ziggurat accepts at once (almost all are)
                let mut word = seed.wrapping_mul(0x9E3779B97F4A7C15) | 1;
                let mut g = None;
                for _ in 0..8 {
                    let w = word;
                    let (tx, rx) = std::sync::mpsc::channel();
                    qvnt::verif::constant(Some(w));
                    std::thread::spawn(move || {
                        let mut rng = qvnt::verif::thread_rng();
                        let x: f64 = rng.sample(rand_distr::StandardNormal);
                        let _ = tx.send(x);
                    });
                    match rx.recv_timeout(std::time::Duration::from_millis(300)) {
                        Ok(x) => {
                            g = Some(x);
                            break;
                        }
                        Err(_) => {
                            word = word.rotate_left(17) ^ 0xA5A5_5A5A_1234_5678;
                        }
                    }
                }
                match g {
                    Some(g) => {
                        let h = q.sample_all(count);
                        qvnt::verif::constant(None);
                        format!("{} {}", fvec(&vec![g; cells]), nvec(&h))
                    }
                    None => {
                        qvnt::verif::constant(None);
                        let h = q.sample_all(count);
                        format!("{} {}", fvec(&[]), nvec(&h))
                    }
                }
            }
        }
        "samplex" => {
            // samplex <count> <word>: every standard-normal draw is the value the constant word gives (chosen by the
            // generator to be far out in a tail): the same for every cell, whatever the threading model
            let count: usize = toks[1].parse().unwrap();
            let w: u64 = toks[2].parse().unwrap();
            let q = st.q.as_ref().expect("no qreg");
            let cells = q.get_probabilities().len();
            let (tx, rx) = std::sync::mpsc::channel();
            qvnt::verif::constant(Some(w));
            std::thread::spawn(move || {
                let mut rng = qvnt::verif::thread_rng();
                let x: f64 = rng.sample(rand_distr::StandardNormal);
                let _ = tx.send(x);
            });
            match rx.recv_timeout(std::time::Duration::from_millis(300)) {
                Ok(g) => {
                    let h = q.sample_all(count);
                    qvnt::verif::constant(None);
                    format!("{} {}", fvec(&vec![g; cells]), nvec(&h))
                }
                Err(_) => {
                    // the ziggurat does not accept this word at once: fall back to ordinary draws, postconditions only
                    qvnt::verif::constant(None);
                    let h = q.sample_all(count);
                    format!("{} {}", fvec(&[]), nvec(&h))
                }
            }
        }
        "threads" => rayon::current_num_threads().to_string(),
        "par" => {
            // par <k> <reps> ;; script   -- the same script single-threaded and with k threads
            let k: usize = toks[1].parse().unwrap();
            let reps: usize = toks[2].parse().unwrap();
            let script: Vec<String> = cmd
                .splitn(2, ";;")
                .nth(1)
                .unwrap_or("")
                .split(";;")
                .map(|c| c.trim().to_string())
                .filter(|c| !c.is_empty())
                .collect();
            let run = |thr: usize| -> Vec<String> {
                let mut s2 = St::default();
                script.iter().map(|c| exec(&mut s2, &c.replace("THR", &thr.to_string()))).collect()
            };
            let base = run(1);
            for rep in 0..reps {
                let other = run(k);
                // once a derived sum (the norm) has been fed back into the amplitudes, they agree
                // to rounding only
                let mut approx = false;
                for (i, (a, b)) in base.iter().zip(other.iter()).enumerate() {
                    let c0 = script[i].split_whitespace().next().unwrap_or("");
                    if c0 == "normalize" || c0 == "measure" {
                        approx = true;
                    }
                    let same = if c0 == "probs" || c0 == "absolute" || approx {
                        // derived sums: equal to rounding
                        let pa: Vec<f64> = a.split_whitespace().skip(1).map(|t| f64::from_bits(t.parse().unwrap_or(0))).collect();
                        let pb: Vec<f64> = b.split_whitespace().skip(1).map(|t| f64::from_bits(t.parse().unwrap_or(0))).collect();
                        pa.len() == pb.len() && pa.iter().zip(pb.iter()).all(|(x, y)| (x - y).abs() <= 1e-12 * (1.0 + x.abs()))
                    } else if c0 == "sample" {
                        // different draws; compare shapes only
                        a.split_whitespace().last().is_some() == b.split_whitespace().last().is_some()
                    } else {
                        a == b
                    };
                    if !same {
                        return format!("diff rep={rep} step={i} {}", script[i].split_whitespace().take(3).collect::<Vec<_>>().join("_"));
                    }
                }
            }
            format!("equal {}", base.len())
        }
        "conc" => {
            // conc <mode> <tasks> <seed>: registers driven concurrently with differing thread
            // counts; every task's result must equal the same calls made alone; watchdog 30 s
            let mode = toks[1].to_string();
            let tasks: usize = toks[2].parse().unwrap();
            let seed: u64 = toks[3].parse().unwrap();
            let (tx, rx) = std::sync::mpsc::channel();
            // the event log of threads.rs (lock acquisitions / releases, calls, installs) is replayed
            // through the transition system of Model/Pool.lean by the driver
            qvnt::verif::pool::start();
            std::thread::spawn(move || {
                let r = crate::conc::run(&mode, tasks, seed);
                let _ = tx.send(r);
            });
            match rx.recv_timeout(std::time::Duration::from_secs(30)) {
                Ok(r) => {
                    let log = qvnt::verif::pool::take();
                    format!("{r} log {}", log.join(" "))
                }
                Err(_) => {
                    // the worker threads are stuck; nothing more can be executed in this process
                    ABORT.store(true, std::sync::atomic::Ordering::SeqCst);
                    let log = qvnt::verif::pool::take();
                    format!("deadlock log {}", log.join(" "))
                }
            }
        }
        "valid" => cvec(st.q.as_ref().expect("no qreg").verif_psi()),
        "bornstat" => {
            // bornstat <mask> <shots>: measure clones of the current register
            let mask: usize = toks[1].parse().unwrap();
            let shots: usize = toks[2].parse().unwrap();
            let q = st.q.as_ref().expect("no qreg");
            let mut counts: std::collections::BTreeMap<usize, usize> = Default::default();
            for _ in 0..shots {
                let mut c = q.clone();
                let v = c.measure_mask(mask).get();
                *counts.entry(v).or_default() += 1;
            }
            let mut o = format!("{}", counts.len());
            for (v, k) in counts {
                o.push_str(&format!(" {v} {k}"));
            }
            o
        }
        "samplestat" => {
            // samplestat <count> <reps>: cell-wise mean and variance of sample_all
            let count: usize = toks[1].parse().unwrap();
            let reps: usize = toks[2].parse().unwrap();
            let q = st.q.as_ref().expect("no qreg");
            let cells = q.get_probabilities().len();
            let mut sum = vec![0f64; cells];
            let mut sq = vec![0f64; cells];
            for _ in 0..reps {
                let h = q.sample_all(count);
                for (i, x) in h.iter().enumerate() {
                    sum[i] += *x as f64;
                    sq[i] += (*x as f64) * (*x as f64);
                }
            }
            let mean: Vec<f64> = sum.iter().map(|s| s / reps as f64).collect();
            let var: Vec<f64> = sq.iter().zip(mean.iter()).map(|(s, m)| s / reps as f64 - m * m).collect();
            format!("{} {}", fvec(&mean), fvec(&var))
        }
        "qvreg" => vobs(&st.q.as_ref().expect("no qreg").get_vreg()),
        "qvregby" => match st.q.as_ref().expect("no qreg").get_vreg_by(toks[1].parse().unwrap()) {
            Some(v) => format!("some {}", vobs(&v)),
            None => "none".into(),
        },
        "creg" => {
            let c = CReg::with_state(toks[1].parse().unwrap(), toks[2].parse().unwrap());
            let o = cobs(&c);
            st.c = Some(c);
            o
        }
        "cnew" => {
            let c = CReg::new(toks[1].parse().unwrap());
            let o = cobs(&c);
            st.c = Some(c);
            o
        }
        "cset" | "cxor" | "creset" | "csetnum" | "ctensor" | "cmulassign" => {
            let c = st.c.as_mut().expect("no creg");
            match toks[0] {
                "cset" => c.set(toks[1] == "1", toks[2].parse().unwrap()),
                "cxor" => c.xor(toks[1] == "1", toks[2].parse().unwrap()),
                "creset" => c.verif_reset(toks[1].parse().unwrap()),
                "csetnum" => c.set_num(toks[1].parse().unwrap()),
                "cmulassign" => {
                    let other = CReg::with_state(toks[1].parse().unwrap(), toks[2].parse().unwrap());
                    *c *= other;
                }
                _ => {
                    let other = CReg::with_state(toks[1].parse().unwrap(), toks[2].parse().unwrap());
                    let me = std::mem::take(c);
                    *c = me * other;
                }
            }
            cobs(c)
        }
        "cgetmask" => st.c.as_ref().expect("no creg").verif_get_by_mask(toks[1].parse().unwrap()).to_string(),
        "cdebug" => format!("{:?}", st.c.as_ref().expect("no creg")),
        "vreg" => {
            let v = VReg::from(toks[1].parse::<usize>().unwrap());
            let o = vobs(&v);
            st.v = Some(v);
            o
        }
        "vnew" => {
            let v = VReg::new(toks[1].parse().unwrap());
            let o = vobs(&v);
            st.v = Some(v);
            o
        }
        "vidx" => {
            let v = st.v.as_ref().expect("no vreg");
            let i: usize = toks[1].parse().unwrap();
            v[i].to_string()
        }
        "vpred" => {
            // predicate "position i is set in <bits>"
            let v = st.v.as_ref().expect("no vreg");
            let bits: u128 = toks[1].parse().unwrap();
            v[move |i: usize| i < 128 && (bits >> i) & 1 == 1].to_string()
        }
        "vlist" => {
            let v = st.v.as_ref().expect("no vreg");
            let l: Vec<usize> = toks[1..].iter().map(|t| t.parse().unwrap()).collect();
            match l.len() {
                0 => v[[0usize; 0]].to_string(),
                1 => v[[l[0]]].to_string(),
                2 => v[[l[0], l[1]]].to_string(),
                3 => v[[l[0], l[1], l[2]]].to_string(),
                _ => v[[l[0], l[1], l[2], l[3]]].to_string(),
            }
        }
        "bitsiter" => {
            let m: usize = toks[1].parse().unwrap();
            let v: Vec<usize> = qvnt::verif::BitsIter::from(m).collect();
            nvec(&v)
        }
        "countbits" => qvnt::verif::count_bits(toks[1].parse().unwrap()).to_string(),
        "metactrl" => {
            // C02: E.c(m) on psi, and E on the projection of psi onto "all control bits set"
            let m: usize = toks[1].parse().unwrap();
            let e = st.op.as_ref().expect("no op").clone();
            let q = st.q.as_ref().expect("no qreg");
            match fresh_op(st).c(m) {
                None => "refused".to_string(),
                Some(ec) => {
                    let mut q1 = q.clone();
                    q1.apply(&ec);
                    let mut q2 = q.clone();
                    let proj: Vec<C> = q
                        .verif_psi()
                        .iter()
                        .enumerate()
                        .map(|(i, z)| if i & m == m { *z } else { C { re: 0.0, im: 0.0 } })
                        .collect();
                    q2.verif_set_psi(proj);
                    q2.apply(&e);
                    format!("ok {} {} {}", ec.act_on(), cvec(q1.verif_psi()), cvec(q2.verif_psi()))
                }
            }
        }
        "metadgr" => {
            // C03: E then E.dgr(), E.dgr() then E; names of the dagger
            let e = st.op.as_ref().expect("no op").clone();
            let d = fresh_op(st).dgr();
            let q = st.q.as_ref().expect("no qreg");
            let mut q1 = q.clone();
            q1.apply(&e);
            q1.apply(&d);
            let mut q2 = q.clone();
            q2.apply(&d);
            q2.apply(&e);
            let mut q3 = q.clone();
            q3.apply(&(e.clone() * d.clone()));
            format!(
                "{} {} {} {} {}",
                ops::names(&d),
                d.act_on(),
                cvec(q1.verif_psi()),
                cvec(q2.verif_psi()),
                cvec(q3.verif_psi())
            )
        }
        "metadgrmat" => {
            let size: usize = toks[1].parse().unwrap();
            let e = st.op.as_ref().expect("no op").clone();
            let d = fresh_op(st).dgr();
            let m1: Vec<C> = e.matrix(size).into_iter().flatten().collect();
            let m2: Vec<C> = d.matrix(size).into_iter().flatten().collect();
            format!("{} {}", cvec(&m1), cvec(&m2))
        }
        "metamul" => {
            // C04: (E * F) vs E then F vs element by element (vs F * E)
            let prog = ops::parse_prog(&toks[1..].join(" ")).expect("bad op program");
            let f = match ops::build(&prog) {
                Built::Ok(o) => o,
                _ => return "nobuild".to_string(),
            };
            let e = st.op.as_ref().expect("no op").clone();
            // the products are formed from factors built afresh from their programs (a clone has no spare capacity and a
            // compacted ring buffer, so fast paths of `*` / `*=` that depend on the layout would never run)
            let fresh_f = || match ops::build(&prog) {
                Built::Ok(o) => o,
                _ => unreachable!(),
            };
            let q = st.q.as_ref().expect("no qreg");
            let mut q1 = q.clone();
            q1.apply(&(fresh_op(st) * fresh_f()));
            {
                // the same product through `*=` on the value and on `&mut`
                let mut a = fresh_op(st);
                a *= fresh_f();
                let mut b = fresh_op(st);
                {
                    let mut r = &mut b;
                    r *= fresh_f();
                }
                let same = a.iter().count() == b.iter().count()
                    && a.iter().zip(b.iter()).all(|(x, y)| format!("{:?}", x) == format!("{:?}", y));
                let mut qa = q.clone();
                qa.apply(&a);
                if !same || cvec(qa.verif_psi()) != cvec(q1.verif_psi()) {
                    // reported through the first product: the comparison below then fails
                    q1 = qa;
                    if !same {
                        q1.apply(&b);
                    }
                }
            }
            let mut q2 = q.clone();
            q2.apply(&e);
            q2.apply(&f);
            let mut q3 = q.clone();
            for g in e.iter().chain(f.iter()) {
                q3.apply(g);
            }
            let mut q4 = q.clone();
            q4.apply(&(fresh_f() * fresh_op(st)));
            let mut q5 = q.clone();
            q5.apply(&(op::id() * e.clone() * op::id() * f.clone() * op::id()));
            format!(
                "{} {} {} {} {} {} {}",
                e.act_on(),
                f.act_on(),
                cvec(q1.verif_psi()),
                cvec(q2.verif_psi()),
                cvec(q3.verif_psi()),
                cvec(q4.verif_psi()),
                cvec(q5.verif_psi())
            )
        }
        "dft" => {
            let m: usize = toks[1].parse().unwrap();
            let o = if toks[2] == "1" { op::qft_swapped(m) } else { op::qft(m) };
            let q = st.q.as_mut().expect("no qreg");
            q.apply(&o);
            cvec(q.verif_psi())
        }
        "matrix" => {
            let size: usize = toks[1].parse().unwrap();
            let m = st.op.as_ref().expect("no op").matrix(size);
            let flat: Vec<C> = m.into_iter().flatten().collect();
            cvec(&flat)
        }
        other => panic!("unknown command {other}"),
    }
}

pub fn exec(st: &mut St, cmd: &str) -> String {
    match catch_unwind(AssertUnwindSafe(|| exec_inner(st, cmd))) {
        Ok(s) => s,
        Err(e) => {
            let loc = crate::LAST_PANIC_LOC.with(|l| l.borrow().clone());
            format!("panic {} {}", loc, crate::panic_msg(&e).replace(' ', "_"))
        }
    }
}

/// Run a generated case: header + commands, executing each.
/// set when the implementation is wedged (deadlock): the suite stops after the current case
pub static ABORT: std::sync::atomic::AtomicBool = std::sync::atomic::AtomicBool::new(false);

thread_local! {
    /// file that always names the command being executed (read by ./check after a timeout)
    pub static CURRENT_FILE: std::cell::RefCell<Option<String>> = std::cell::RefCell::new(None);
}

fn note_current(header: &str, done: &[(String, String)], cmd: &str) {
    CURRENT_FILE.with(|f| {
        if let Some(p) = f.borrow().as_ref() {
            let mut s = format!("{header}\n");
            for (c, o) in done {
                s.push_str(&format!("{c} | {o}\n"));
            }
            s.push_str(&format!("{cmd} | HANG\n"));
            let _ = std::fs::write(p, s);
        }
    });
}

pub fn run_case(tr: &mut Trace, header: (&str, u64, usize, &str), cmds: &[String]) {
    tr.case(header.0, header.1, header.2, header.3);
    let head = format!("case {}:{}:{} {}", header.0, header.1, header.2, header.3);
    let mut st = St::default();
    let mut done: Vec<(String, String)> = Vec::new();
    for c in cmds {
        note_current(&head, &done, c);
        let obs = exec(&mut st, c);
        tr.line(c, &obs);
        if done.len() < 64 {
            done.push((c.clone(), if obs.len() > 4000 { String::new() } else { obs }));
        }
    }
}

pub fn replay(text: &str, tr: &mut Trace) {
    let mut st = St::default();
    for line in text.lines() {
        let line = line.trim();
        if line.is_empty() || line.starts_with('#') {
            continue;
        }
        if let Some(rest) = line.strip_prefix("case ") {
            st = St::default();
            tr.cases += 1;
            tr.buf.push_str(&format!("case {rest}\n"));
            continue;
        }
        let cmd = line.split('|').next().unwrap().trim();
        let obs = exec(&mut st, cmd);
        tr.line(cmd, &obs);
    }
}

// ---------------------------------------------------------------------------------------

pub fn rand_psi(r: &mut Rng, n: usize, pad_garbage: bool) -> Vec<C> {
    let size = 1usize << n;
    let len = size.max(8);
    let mut v: Vec<C> = (0..len)
        .map(|i| {
            if i < size || pad_garbage {
                C { re: r.sym(), im: r.sym() }
            } else {
                C { re: 0.0, im: 0.0 }
            }
        })
        .collect();
    // sparse states now and then
    if r.chance(1, 4) {
        for z in v.iter_mut().take(size) {
            if r.chance(1, 2) {
                *z = C { re: 0.0, im: 0.0 };
            }
        }
    }
    let norm: f64 = v.iter().take(size).map(|z| z.re * z.re + z.im * z.im).sum::<f64>().sqrt();
    if norm > 1e-6 {
        for z in v.iter_mut().take(size) {
            z.re /= norm;
            z.im /= norm;
        }
    } else {
        v[0] = C { re: 1.0, im: 0.0 };
    }
    v
}

fn threads_choice(r: &mut Rng, max_thr: usize) -> usize {
    if r.chance(1, 2) {
        1
    } else {
        r.range(2, max_thr.max(2))
    }
}

fn gen_ops_case(r: &mut Rng, max_n: usize, max_thr: usize, stats: &mut HashMap<String, usize>) -> (String, Vec<String>) {
    let n = r.range(0, max_n);
    let bits = if n < 3 && r.chance(1, 10) { 3 } else { n };
    let cfg = GenCfg { bits, max_depth: 3, bad_permille: 60 };
    let prog = ops::gen_prog(r, &cfg, 0);
    let mut cmds = vec![format!("op {}", ops::prog_text(&prog))];
    for t in &prog {
        let k = match t {
            ops::Tok::Id => "id".to_string(),
            ops::Tok::G(k, _) => k.to_string(),
            ops::Tok::R(k, _, _) => k.to_string(),
            ops::Tok::U2(..) => "u2".into(),
            ops::Tok::U3(..) => "u3".into(),
            ops::Tok::C(_) => "c".into(),
            ops::Tok::Dgr => "dgr".into(),
            _ => "mul".into(),
        };
        *stats.entry(format!("tok.{k}")).or_default() += 1;
    }
    let built = ops::build(&prog);
    *stats
        .entry(format!(
            "built.{}",
            match &built {
                Built::Ok(_) => "ok",
                Built::Refused => "refused",
                Built::Panic(_) => "panic",
            }
        ))
        .or_default() += 1;
    *stats.entry(format!("n.{n}")).or_default() += 1;
    if let Built::Ok(o) = &built {
        let thr = threads_choice(r, max_thr);
        cmds.push(format!("qreg {n} {thr}"));
        let psi = rand_psi(r, n, bits > n);
        cmds.push(format!("setpsi {}", cvec(&psi)));
        cmds.push(if r.chance(1, 5) { "applyeach".into() } else { "apply".into() });
        // second application on the evolved state
        if r.chance(1, 3) {
            cmds.push("apply".into());
        }
        let act = o.act_on();
        for size in 0..=3usize {
            if act < (1usize << size) && r.chance(1, 2) && o.len() <= 12 {
                cmds.push(format!("matrix {size}"));
                break;
            }
        }
    }
    (format!("n={n} bits={bits}"), cmds)
}

fn leaf_kind(t: &ops::Tok) -> String {
    match t {
        ops::Tok::Id => "id".to_string(),
        ops::Tok::G(k, _) => k.to_string(),
        ops::Tok::R(k, _, _) => k.to_string(),
        ops::Tok::U2(..) => "u2".into(),
        ops::Tok::U3(..) => "u3".into(),
        ops::Tok::C(_) => "c".into(),
        ops::Tok::Dgr => "dgr".into(),
        _ => "mul".into(),
    }
}

fn reg_cmds(r: &mut Rng, n: usize, max_thr: usize, pad_garbage: bool) -> Vec<String> {
    let thr = threads_choice(r, max_thr);
    if r.chance(1, 4) {
        vec![format!("qstate {n} {} {thr}", r.below(1usize << n))]
    } else {
        vec![format!("qreg {n} {thr}"), format!("setpsi {}", cvec(&rand_psi(r, n, pad_garbage)))]
    }
}

/// C01: one constructor call, every gate kind, any mask / angle / register size.
fn gen_c01_case(r: &mut Rng, max_n: usize, max_thr: usize, stats: &mut HashMap<String, usize>) -> (String, Vec<String>) {
    let n = r.range(0, max_n);
    let all = (1usize << n) - 1;
    let cfg = GenCfg { bits: n, max_depth: 0, bad_permille: 80 };
    let mut leaf = ops::gen_leaf(r, &cfg, all);
    // qft belongs to C15
    while matches!(leaf, ops::Tok::G("qft", _) | ops::Tok::G("qfts", _)) {
        leaf = ops::gen_leaf(r, &cfg, all);
    }
    *stats.entry(format!("kind.{}", leaf_kind(&leaf))).or_default() += 1;
    *stats.entry(format!("n.{n}")).or_default() += 1;
    let prog = vec![leaf];
    let mut cmds = vec![format!("op {}", ops::prog_text(&prog))];
    if let Built::Ok(o) = ops::build(&prog) {
        cmds.extend(reg_cmds(r, n, max_thr, false));
        cmds.push("apply".into());
        let act = o.act_on();
        for size in 0..=3usize {
            if act < (1usize << size) && r.chance(2, 3) {
                cmds.push(format!("matrix {size}"));
                break;
            }
        }
    } else {
        *stats.entry("refusals".into()).or_default() += 1;
    }
    (format!("n={n}"), cmds)
}

const ANGLES3: [f64; 3] = [0.7, -2.0943951023931953, 7.3];

/// C01 small scope, exhaustive: every gate kind x every mask x every basis state, n <= max_n.
fn c01x_cases(max_n: usize) -> Vec<(usize, ops::Tok)> {
    let mut v = Vec::new();
    for n in 0..=max_n {
        let all = 1usize << n;
        for m in 0..all {
            let pc = m.count_ones();
            for k in ["x", "y", "z", "s", "t", "h"] {
                v.push((n, ops::Tok::G(k, m)));
            }
            for a in ANGLES3 {
                if pc <= 2 {
                    for k in ["rx", "ry", "rz", "u1"] {
                        v.push((n, ops::Tok::R(k, a, m)));
                    }
                    v.push((n, ops::Tok::U2(a, 1.1, m)));
                    v.push((n, ops::Tok::U3(a, -0.4, 2.5, m)));
                }
                if pc >= 1 && pc <= 3 {
                    for k in ["rxx", "ryy", "rzz"] {
                        v.push((n, ops::Tok::R(k, a, m)));
                    }
                }
            }
            if pc >= 1 && pc <= 3 {
                for k in ["swap", "sqrt_swap", "i_swap", "sqrt_i_swap"] {
                    v.push((n, ops::Tok::G(k, m)));
                }
            }
        }
    }
    v
}

fn gen_c01x_case(item: &(usize, ops::Tok), stats: &mut HashMap<String, usize>) -> (String, Vec<String>) {
    let (n, leaf) = item;
    *stats.entry(format!("kind.{}", leaf_kind(leaf))).or_default() += 1;
    let prog = vec![leaf.clone()];
    let mut cmds = vec![format!("op {}", ops::prog_text(&prog))];
    if let Built::Ok(_) = ops::build(&prog) {
        for s in 0..(1usize << n) {
            cmds.push(format!("qstate {n} {s} 1"));
            cmds.push("apply".into());
        }
        if *n <= 3 {
            cmds.push(format!("matrix {n}"));
        }
    }
    (format!("n={n} exhaustive"), cmds)
}

/// C02: E.c(m) against E on the control subspace.
fn gen_c02_case(r: &mut Rng, max_n: usize, max_thr: usize, stats: &mut HashMap<String, usize>) -> (String, Vec<String>) {
    let n = r.range(1, max_n.max(1));
    let all = (1usize << n) - 1;
    let cfg = GenCfg { bits: n, max_depth: 2, bad_permille: 0 };
    let mut prog;
    loop {
        let d0 = if r.chance(1, 2) { 2 } else { 0 };
        prog = ops::gen_prog(r, &cfg, d0);
        if let Built::Ok(_) = ops::build(&prog) {
            break;
        }
    }
    let act = match ops::build(&prog) {
        Built::Ok(o) => o.act_on(),
        _ => 0,
    };
    let free = all & !act;
    let overlap = r.chance(1, 8) || free == 0;
    let m = if overlap {
        r.submask(all) | if act != 0 && r.chance(1, 2) { r.kbits(act, 1).unwrap() } else { 0 }
    } else {
        let k = r.range(1, 3.min(free.count_ones() as usize));
        r.kbits(free, k).unwrap()
    };
    *stats.entry(format!("ctrlbits.{}", m.count_ones())).or_default() += 1;
    *stats.entry(if m & act != 0 { "overlap".into() } else { "disjoint".to_string() }).or_default() += 1;
    for t in &prog {
        *stats.entry(format!("tok.{}", leaf_kind(t))).or_default() += 1;
    }
    let mut cmds = vec![format!("op {}", ops::prog_text(&prog))];
    cmds.extend(reg_cmds(r, n, max_thr, false));
    cmds.push(format!("metactrl {m}"));
    // the controlled operator as a program of its own: refusal, reported support, second control
    let mut p2 = prog.clone();
    p2.push(ops::Tok::C(m));
    if r.chance(1, 2) {
        let m2 = if r.chance(1, 4) { r.submask(all) } else { r.submask(free & !m) };
        p2.push(ops::Tok::C(m2));
    }
    cmds.push(format!("op {}", ops::prog_text(&p2)));
    (format!("n={n} act={act} ctrl={m}"), cmds)
}

/// C03: E followed by its dagger.
fn gen_c03_case(r: &mut Rng, max_n: usize, max_thr: usize, stats: &mut HashMap<String, usize>) -> (String, Vec<String>) {
    let n = r.range(0, max_n);
    let cfg = GenCfg { bits: n, max_depth: 3, bad_permille: 0 };
    let mut prog;
    loop {
        let d0 = if r.chance(1, 3) { 3 } else { 0 };
        prog = ops::gen_prog(r, &cfg, d0);
        if let Built::Ok(_) = ops::build(&prog) {
            break;
        }
    }
    for t in &prog {
        *stats.entry(format!("tok.{}", leaf_kind(t))).or_default() += 1;
    }
    let o = match ops::build(&prog) {
        Built::Ok(o) => o,
        _ => unreachable!(),
    };
    *stats.entry(format!("len.{}", o.len().min(20))).or_default() += 1;
    let mut cmds = vec![format!("op {}", ops::prog_text(&prog))];
    cmds.extend(reg_cmds(r, n, max_thr, false));
    cmds.push("metadgr".into());
    for size in 0..=3usize {
        if o.act_on() < (1usize << size) && o.len() <= 16 {
            cmds.push(format!("metadgrmat {size}"));
            break;
        }
    }
    (format!("n={n}"), cmds)
}

/// C04: products against their factors one after another.
fn gen_c04_case(r: &mut Rng, max_n: usize, max_thr: usize, long: bool, stats: &mut HashMap<String, usize>) -> (String, Vec<String>) {
    let n = r.range(0, max_n);
    let all = (1usize << n) - 1;
    let cfg = GenCfg { bits: n, max_depth: 2, bad_permille: 0 };
    let mut build_ok = |r: &mut Rng, within: usize| -> ops::Prog {
        loop {
            let c = GenCfg { bits: n, max_depth: 2, bad_permille: 0 };
            let mut p = if within == all {
                ops::gen_prog(r, &c, 0)
            } else {
                vec![ops::gen_leaf(r, &c, within)]
            };
            // a chain `g1 * g2 * .. * gk` of 2..14 single gates (the queue then has whatever spare capacity repeated `*`
            // leaves; products of a short chain with a longer one exercise every fast path of `*` / `*=`)
            if r.chance(1, 3) {
                let k = r.range(2, 14);
                p = vec![ops::gen_leaf(r, &cfg, within)];
                for _ in 1..k {
                    p.push(ops::gen_leaf(r, &cfg, within));
                    p.push(ops::Tok::Mul);
                }
            }
            // long products
            if long && r.chance(1, 4) {
                let k = r.range(50, 400);
                for _ in 0..k {
                    p.push(ops::gen_leaf(r, &cfg, within));
                    p.push(ops::Tok::Mul);
                }
            }
            if let Built::Ok(_) = ops::build(&p) {
                return p;
            }
        }
    };
    // sometimes force disjoint supports to exercise commutation
    let disjoint = n >= 2 && r.chance(1, 3);
    let (pe, pf) = if disjoint {
        let a = r.submask(all);
        let (a, b) = (a, all & !a);
        (build_ok(r, a), build_ok(r, b))
    } else {
        (build_ok(r, all), build_ok(r, all))
    };
    *stats.entry(if disjoint { "disjoint".into() } else { "general".to_string() }).or_default() += 1;
    let le = match ops::build(&pe) { Built::Ok(o) => o.len(), _ => 0 };
    let lf = match ops::build(&pf) { Built::Ok(o) => o.len(), _ => 0 };
    *stats.entry(format!("len.{}", ((le + lf) / 10 * 10).min(500))).or_default() += 1;
    let mut cmds = vec![format!("op {}", ops::prog_text(&pe))];
    cmds.extend(reg_cmds(r, n, max_thr, false));
    cmds.push(format!("metamul {}", ops::prog_text(&pf)));
    (format!("n={n} lens={le}+{lf}"), cmds)
}

fn word_mask(r: &mut Rng) -> usize {
    match r.below(8) {
        0 => 0,
        1 => !0usize,
        2 => 1usize << 63,
        3 => (1usize << 63) | r.submask(0xffff),
        4 => r.next() as usize,
        5 => (r.next() & r.next() & r.next()) as usize,
        6 => (r.next() | r.next() | (1u64 << 63)) as usize,
        _ => r.submask(0xff),
    }
}

/// C14: construction, tensor product, resizing, observable sizes.
fn gen_reg_case(r: &mut Rng, max_n: usize, max_thr: usize, stats: &mut HashMap<String, usize>) -> (String, Vec<String>) {
    let mut cmds = Vec::new();
    let n = r.range(0, max_n.min(5));
    let thr = threads_choice(r, max_thr);
    let s = if r.chance(1, 3) { r.next() as usize % (1usize << (n + 3)) } else { r.below(1usize << n) };
    cmds.push(format!("qstate {n} {s} {thr}"));
    cmds.push("qobs".into());
    let mut cur = n;
    let steps = r.range(1, 4);
    for _ in 0..steps {
        match r.below(6) {
            0 | 1 => {
                // tensor with another register in an arbitrary state
                let n2 = r.range(0, 3);
                if cur + n2 > max_n + 2 {
                    continue;
                }
                let thr2 = threads_choice(r, max_thr);
                if r.chance(1, 2) {
                    cmds.push(format!("q2state {n2} {} {thr2}", r.below(1usize << (n2 + 1))));
                } else {
                    cmds.push(format!("q2reg {n2} {thr2}"));
                    cmds.push(format!("set2psi {}", cvec(&rand_psi(r, n2, false))));
                }
                if r.chance(1, 2) {
                    cmds.push(format!("setpsi {}", cvec(&rand_psi(r, cur, false))));
                }
                cmds.push(if r.chance(1, 3) { "tensor assign".into() } else { "tensor".to_string() });
                cur += n2;
                *stats.entry("tensor".into()).or_default() += 1;
            }
            2 | 3 => {
                let n2 = r.range(0, (max_n + 1).min(cur + 3));
                if r.chance(1, 2) {
                    cmds.push(format!("setpsi {}", cvec(&rand_psi(r, cur, false))));
                }
                cmds.push(if r.chance(1, 5) { format!("setnumnr {n2}") } else { format!("setnum {n2}") });
                *stats.entry(if n2 < cur { "shrink".into() } else { "grow".to_string() }).or_default() += 1;
                cur = n2;
            }
            4 => {
                cmds.push("probs".into());
                cmds.push("polar".into());
                cmds.push("qvreg".into());
                cmds.push(format!("sample {} {}", r.below(50), r.next() >> 1));
            }
            _ => {
                let a = r.range(0, 6);
                let b = r.range(0, 6);
                cmds.push(format!("creg {a} {}", r.below(1usize << (a + 2))));
                let form = if r.chance(1, 2) { "ctensor" } else { "cmulassign" };
                cmds.push(format!("{form} {b} {}", r.below(1usize << (b + 1))));
                *stats.entry(form.into()).or_default() += 1;
            }
        }
    }
    cmds.push("probs".into());
    *stats.entry(format!("n.{n}")).or_default() += 1;
    (format!("n={n}"), cmds)
}

fn unitary_prog(r: &mut Rng, n: usize) -> ops::Prog {
    let cfg = GenCfg { bits: n, max_depth: 2, bad_permille: 0 };
    loop {
        let p = ops::gen_prog(r, &cfg, 0);
        if let Built::Ok(_) = ops::build(&p) {
            return p;
        }
    }
}

/// C05: histories of public operations; the state must stay valid after every step.
fn gen_hist_case(r: &mut Rng, max_n: usize, max_thr: usize, steps_max: usize, stats: &mut HashMap<String, usize>) -> (String, Vec<String>) {
    let mut n = r.range(0, max_n.min(5));
    let thr = threads_choice(r, max_thr);
    let mut cmds = if r.chance(1, 2) {
        vec![format!("qstate {n} {} {thr}", r.below(1usize << n)), "valid".into()]
    } else {
        // a dense random state: every basis state, the highest ones included, carries amplitude
        vec![format!("qreg {n} {thr}"), format!("setpsi {}", cvec(&rand_psi(r, n, false))), "valid".into()]
    };
    let steps = r.range(2, steps_max);
    for _ in 0..steps {
        let k = r.below(10);
        let kind = match k {
            0..=3 => {
                cmds.push(format!("op {}", ops::prog_text(&unitary_prog(r, n))));
                cmds.push("apply".into());
                "apply"
            }
            4..=6 => {
                let all = (1usize << n) - 1;
                let m = match r.below(4) {
                    0 => all,
                    1 => r.submask(all) | (r.next() as usize & !all & 0xff00),
                    _ => r.submask(all),
                };
                if r.chance(1, 6) {
                    cmds.push(format!("measure all {}", r.next() >> 1));
                } else {
                    cmds.push(format!("measure {m} {}", r.next() >> 1));
                }
                "measure"
            }
            7 => {
                let n2 = r.range(0, 2);
                if n + n2 > max_n {
                    continue;
                }
                cmds.push(format!("q2state {n2} {} 1", r.below(1usize << n2)));
                cmds.push("tensor".into());
                n += n2;
                "tensor"
            }
            8 => {
                let n2 = r.range(0, max_n.min(n + 2));
                cmds.push(format!("setnum {n2}"));
                n = n2;
                "setnum"
            }
            _ => {
                let all = (1usize << n) - 1;
                cmds.push(format!("resetmask {} {}", r.submask(all), r.next() >> 1));
                "resetmask"
            }
        };
        *stats.entry(format!("step.{kind}")).or_default() += 1;
        cmds.push("valid".into());
        if r.chance(1, 5) {
            cmds.push("probs".into());
        }
    }
    *stats.entry(format!("steps.{}", (steps / 10 * 10).min(200))).or_default() += 1;
    (format!("n0={n}"), cmds)
}

/// C06: measurement of arbitrary states with arbitrary masks, repeated.
fn gen_meas_case(r: &mut Rng, max_n: usize, max_thr: usize, stats: &mut HashMap<String, usize>) -> (String, Vec<String>) {
    let n = r.range(0, max_n);
    let all = (1usize << n) - 1;
    let mut cmds = reg_cmds(r, n, max_thr, false);
    if r.chance(1, 2) {
        cmds.push(format!("op {}", ops::prog_text(&unitary_prog(r, n))));
        cmds.push("apply".into());
    }
    let m = match r.below(6) {
        0 => 0,
        1 => all,
        2 => r.submask(all) | ((r.next() as usize) & !all),
        3 => (r.next() as usize) & !all,
        _ => r.submask(all),
    };
    *stats.entry(format!("maskbits.{}", (m & all).count_ones())).or_default() += 1;
    *stats.entry(if m & !all != 0 { "beyond".into() } else { "inside".to_string() }).or_default() += 1;
    cmds.push("probs".into());
    cmds.push(format!("measure {m} {}", r.next() >> 1));
    cmds.push("probs".into());
    cmds.push(format!("measure {m} {}", r.next() >> 1));
    // a sub-mask and a disjoint mask afterwards
    let sub = r.submask(m & all);
    cmds.push(format!("measure {sub} {}", r.next() >> 1));
    let other = r.submask(all & !m);
    cmds.push(format!("measure {other} {}", r.next() >> 1));
    cmds.push(format!("measure {m} {}", r.next() >> 1));
    if r.chance(1, 4) {
        cmds.push("measure all".into());
        cmds.push("measure all".into());
    }
    (format!("n={n} mask={m}"), cmds)
}

/// C07 (statistics): Born frequencies of measure_mask and moments of sample_all.
fn gen_born_case(r: &mut Rng, max_thr: usize, shots: usize, stats: &mut HashMap<String, usize>) -> (String, Vec<String>) {
    let n = r.range(1, 4);
    let all = (1usize << n) - 1;
    let mut cmds = reg_cmds(r, n, max_thr, false);
    if r.chance(1, 2) {
        cmds.push(format!("op {}", ops::prog_text(&unitary_prog(r, n))));
        cmds.push("apply".into());
    }
    if r.chance(1, 2) {
        // a state with one dominant outcome: the (1-p) factor of the variance is visible
        let thr = if r.chance(1, 2) { 1 } else { r.range(2, max_thr.max(2)) };
        let size = 1usize << n;
        let dom = r.below(size);
        let mut v = vec![C { re: 0.0, im: 0.0 }; size.max(8)];
        for (i, z) in v.iter_mut().enumerate().take(size) {
            let a = if i == dom { 0.9 } else { 0.43589 / ((size - 1).max(1) as f64).sqrt() };
            *z = C { re: a * (0.3 * i as f64).cos(), im: a * (0.3 * i as f64).sin() };
        }
        cmds = vec![format!("qreg {n} {thr}"), format!("setpsi {}", cvec(&v))];
        *stats.entry("dominant".into()).or_default() += 1;
    }
    cmds.push("probs".into());
    let m = if r.chance(1, 3) { all } else { r.submask(all) | r.kbits(all, 1).unwrap() };
    cmds.push(format!("bornstat {m} {shots}"));
    if r.chance(2, 3) {
        cmds.push(format!("samplestat {} {}", 20000 + r.below(20000), 300));
    }
    *stats.entry(format!("n.{n}")).or_default() += 1;
    (format!("n={n} mask={m}"), cmds)
}

/// C16: histograms of sparse states, all shot counts.
fn gen_sample_case(r: &mut Rng, max_n: usize, max_thr: usize, stats: &mut HashMap<String, usize>) -> (String, Vec<String>) {
    if r.chance(1, 5) {
        // a strongly skewed state, a shot count around 1 / p_rare, and every normal draw far out in a tail: the proposal of
        // the rare cell is clipped at 0 and the dominant cell overshoots by several shots, so that the correction pass has to
        // take back more than one shot per populated cell (or hand out several)
        let n = r.range(1, max_n.min(3).max(1));
        let size = 1usize << n;
        let thr = threads_choice(r, max_thr);
        let p_rare = *r.pick(&[0.1f64, 0.01, 0.001][..]);
        let rare = r.below(size);
        let dom = (rare + 1 + r.below(size - 1)) % size;
        let mut v = vec![C { re: 0.0, im: 0.0 }; size.max(8)];
        v[rare] = C { re: p_rare.sqrt(), im: 0.0 };
        v[dom] = C { re: 0.0, im: (1.0 - p_rare).sqrt() };
        let mut cmds = vec![format!("qreg {n} {thr}"), format!("setpsi {}", cvec(&v))];
        for _ in 0..r.range(2, 5) {
            let count = ((1.0 / p_rare) as usize) * r.range(1, 3) + r.below(3);
            // ziggurat layer 1 (x = u * 3.65, accepted at once when |x| < 3.44): u in +-[0.80, 0.94]
            let u = (0.80 + 0.14 * (r.below(1000) as f64) / 1000.0) * if r.chance(2, 3) { -1.0 } else { 1.0 };
            let frac = ((u + 3.0 - 2.0) / 2.0 * (1u64 << 52) as f64) as u64;
            let word = (frac << 12) | 1;
            cmds.push(format!("samplex {count} {word}"));
        }
        *stats.entry("skewed".into()).or_default() += 1;
        return (format!("n={n} skewed p={p_rare}"), cmds);
    }
    let n = r.range(0, max_n);
    let size = 1usize << n;
    let thr = threads_choice(r, max_thr);
    let mut cmds = vec![format!("qreg {n} {thr}")];
    // sparse state: k non-zero amplitudes
    let kmax = 1 + r.below(6);
    let k = r.range(1, size.min(kmax));
    let mut v = vec![C { re: 0.0, im: 0.0 }; size.max(8)];
    for _ in 0..k {
        v[r.below(size)] = C { re: r.sym(), im: r.sym() };
    }
    let norm: f64 = v.iter().map(|z| z.re * z.re + z.im * z.im).sum::<f64>().sqrt();
    if norm < 1e-3 {
        v[0] = C { re: 1.0, im: 0.0 };
    } else {
        for z in v.iter_mut() {
            z.re /= norm;
            z.im /= norm;
        }
    }
    cmds.push(format!("setpsi {}", cvec(&v)));
    if r.chance(1, 3) {
        cmds.push(format!("op {}", ops::prog_text(&unitary_prog(r, n))));
        cmds.push("apply".into());
    }
    for _ in 0..r.range(1, 4) {
        let count = match r.below(7) {
            0 => 0,
            1 => 1,
            2 => 2 * r.below(50) + 1,
            3 => r.below(10),
            4 => 1001,
            5 => r.below(100000),
            _ => r.below(2000),
        };
        *stats.entry(format!("count.{}", if count < 2 { count.to_string() } else if count < 100 { "small".into() } else { "large".into() })).or_default() += 1;
        cmds.push(format!("sample {count} {}", r.next() >> 1));
    }
    *stats.entry(format!("n.{n}")).or_default() += 1;
    *stats.entry(format!("thr.{}", if thr == 1 { "single" } else { "multi" })).or_default() += 1;
    (format!("n={n} support={k}"), cmds)
}

/// C20: bit-mask bookkeeping over the full word range.
fn gen_bits_case(r: &mut Rng, stats: &mut HashMap<String, usize>) -> (String, Vec<String>) {
    let mut cmds = Vec::new();
    let m = word_mask(r);
    *stats.entry(if m >> 63 == 1 { "topbit".into() } else { "notop".to_string() }).or_default() += 1;
    cmds.push(format!("bitsiter {m}"));
    cmds.push(format!("countbits {m}"));
    cmds.push(format!("vreg {m}"));
    let k = m.count_ones() as usize;
    for _ in 0..3 {
        cmds.push(format!("vidx {}", r.below(k + 2)));
    }
    cmds.push(format!("vpred {}", (r.next() as u128) | ((r.next() as u128) << 64)));
    let len = r.below(5);
    // positions inside, just outside, a word size further (64 + p), and repeated
    let mut lv: Vec<usize> = Vec::new();
    for _ in 0..len {
        let p = match r.below(6) {
            0 => 64 * r.range(1, 2) + r.below(k + 1),
            1 if !lv.is_empty() => *r.pick(&lv[..]),
            _ => r.below(k + 3),
        };
        lv.push(p);
    }
    let l: Vec<String> = lv.iter().map(|p| p.to_string()).collect();
    cmds.push(format!("vlist {}", l.join(" ")).trim_end().to_string());
    let nn = *r.pick(&[0usize, 1, 2, 5, 8, 31, 32, 63, 64]);
    cmds.push(format!("vnew {nn}"));
    // structure of the multi-qubit constructors on word-wide masks
    if r.chance(1, 2) {
        let hm = word_mask(r);
        cmds.push(format!("op h {hm}"));
        if r.chance(1, 2) {
            cmds.push(format!("op qfts {}", hm & 0x8000_0000_0000_00ff));
        }
    }
    // classical registers
    let cn = *r.pick(&[0usize, 1, 2, 3, 7, 8, 17, 31, 32, 63, 64]);
    let cv = if r.chance(1, 2) { r.next() as usize } else { r.below(1 << 10) };
    cmds.push(format!("creg {cn} {cv}"));
    let inside = if cn >= 64 { !0usize } else { (1usize << cn) - 1 };
    for _ in 0..r.range(1, 5) {
        let mk = if r.chance(1, 6) { r.next() as usize } else { r.submask(inside) };
        match r.below(5) {
            0 => cmds.push(format!("cset {} {mk}", r.below(2))),
            1 => cmds.push(format!("cxor {} {mk}", r.below(2))),
            2 => cmds.push(format!("cgetmask {}", if r.chance(1, 3) { r.next() as usize } else { mk })),
            3 => cmds.push(format!("creset {}", r.next() as usize)),
            _ => cmds.push("cdebug".into()),
        }
    }
    if cn <= 40 {
        let b = r.range(0, 20);
        let form = if r.chance(1, 2) { "ctensor" } else { "cmulassign" };
        cmds.push(format!("{form} {b} {}", r.below(1usize << (b + 1))));
        cmds.push("cdebug".into());
    }
    if r.chance(1, 3) {
        cmds.push(format!("csetnum {}", *r.pick(&[0usize, 1, 3, 8, 64])));
    }
    // views of a quantum register
    let qn = r.range(0, 5);
    cmds.push(format!("qreg {qn} 1"));
    cmds.push("qvreg".into());
    cmds.push(format!("qvregby {}", if r.chance(1, 2) { r.submask((1 << qn) - 1) } else { word_mask(r) }));
    (format!("mask={m}"), cmds)
}

use crate::interp::hex;
use crate::qgen;

fn join_src(parts: &[String]) -> String {
    parts.join("\n")
}

/// The top-level statements of a generated source text, by kind and name, in order (`qreg:q:3 creg:c:2 gate:foo apply:h
/// measure reset barrier if:x opaque`): what the text says, independently of the parser and of `qasm/ast`. Only for texts
/// the generators wrote themselves (one statement ends at a `;` outside braces or at the closing brace of a gate body).
fn expected_kinds(src: &str) -> String {
    let mut out: Vec<String> = Vec::new();
    let mut depth = 0usize;
    let mut cur = String::new();
    let mut stmts: Vec<String> = Vec::new();
    for line in src.lines() {
        let line = match line.find("//") {
            Some(i) => &line[..i],
            None => line,
        };
        for ch in line.chars() {
            cur.push(ch);
            match ch {
                '{' => depth += 1,
                '}' => {
                    depth = depth.saturating_sub(1);
                    if depth == 0 {
                        stmts.push(std::mem::take(&mut cur));
                    }
                }
                ';' if depth == 0 => stmts.push(std::mem::take(&mut cur)),
                _ => {}
            }
        }
        cur.push(' ');
    }
    let ident = |t: &str| -> String { t.chars().take_while(|c| c.is_alphanumeric() || *c == '_').collect() };
    for st in stmts {
        let t = st.trim();
        if t.is_empty() || t == ";" || t.starts_with("OPENQASM") || t.starts_with("include") {
            continue;
        }
        let word = ident(t);
        let rest = t[word.len()..].trim_start();
        let reg = |rest: &str| -> String {
            let name = ident(rest);
            let size: String = rest[name.len()..].chars().filter(|c| c.is_ascii_digit()).collect();
            format!("{name}:{size}")
        };
        out.push(match word.as_str() {
            "qreg" => format!("qreg:{}", reg(rest)),
            "creg" => format!("creg:{}", reg(rest)),
            "gate" => format!("gate:{}", ident(rest)),
            "opaque" => "opaque".to_string(),
            "barrier" => "barrier".to_string(),
            "reset" => "reset".to_string(),
            "measure" => "measure".to_string(),
            "if" => {
                let after = rest.find(')').map(|i| rest[i + 1..].trim_start()).unwrap_or("");
                format!("if:{}", ident(after))
            }
            _ => format!("apply:{word}"),
        });
    }
    format!("iexpect kinds {}", out.join(" "))
}

/// C10/C11/C12 correspondence: a whole program, interpreted and executed.
fn gen_int_case(r: &mut Rng, nonunitary: bool, stats: &mut HashMap<String, usize>) -> (String, Vec<String>) {
    let p = qgen::gen_program(r, 5, nonunitary);
    let mut all = p.decls.clone();
    all.extend(p.stmts.clone());
    let header = match r.below(3) {
        0 => "OPENQASM 2.0;\ninclude \"qelib1.inc\";\n",
        1 => "OPENQASM 2.0;\n// a comment\n",
        _ => "",
    };
    let src = format!("{header}{}", join_src(&all));
    *stats.entry(format!("stmts.{}", p.stmts.len())).or_default() += 1;
    *stats.entry(format!("gates.{}", p.env.gates.len())).or_default() += 1;
    for s in &p.stmts {
        let k = s.split(|c: char| !c.is_alphanumeric() && c != '_').next().unwrap_or("").to_lowercase();
        let k = if k.starts_with("if") { "if".to_string() } else { k };
        *stats.entry(format!("stmt.{k}")).or_default() += 1;
    }
    let mut cmds = vec![if r.chance(1, 5) { "inew".to_string() } else { "inew".to_string() }];
    if r.chance(1, 6) {
        cmds.push("ixor".into());
    }
    cmds.push(format!("iadd {}", hex(&src)));
    cmds.push(expected_kinds(&src));
    cmds.push("iexpect ok".into());
    cmds.push("isym new".into());
    cmds.push(format!("isym finish {}", r.next() >> 1));
    if r.chance(1, 3) {
        cmds.push("isym reset".into());
        cmds.push(format!("isym finish {}", r.next() >> 1));
    }
    (format!("nq={}", p.env.nq()), cmds)
}

/// C10: a parameter expression with a known mathematical value, through the whole pipeline.
fn gen_c10e_case(r: &mut Rng, stats: &mut HashMap<String, usize>) -> (String, Vec<String>) {
    let d0 = r.range(1, 4);
    let (e, v) = qgen::gen_expr(r, &[], d0);
    *stats.entry(format!("len.{}", (e.len() / 10 * 10).min(100))).or_default() += 1;
    // also through a user-defined gate with the expression over its parameter
    let (src, val) = if r.chance(1, 3) {
        let (e2, v2) = qgen::gen_expr(r, &[("t".to_string(), v)], 2);
        (format!("qreg q[1];\ngate g(t) a {{ rz({e2}) a; }}\ng({e}) q[0];"), v2)
    } else {
        (format!("qreg q[1];\nrz({e}) q[0];"), v)
    };
    (format!("value={val}"), vec!["inew".into(), format!("iadd {}", hex(&src)), "iexpect ok".into(), format!("iexprval {}", val.to_bits())])
}

/// C10: a program with user-defined gates against its flattened form (expanded by the generator).
fn gen_c10f_case(r: &mut Rng, stats: &mut HashMap<String, usize>) -> (String, Vec<String>) {
    let (prog, flat, expansions, shadow) = crate::qflat::gen(r);
    *stats.entry(format!("expansions.{}", expansions.min(6))).or_default() += 1;
    if shadow {
        *stats.entry("shadow".into()).or_default() += 1;
    }
    let seed = r.next() >> 1;
    let cmds = vec![
        "inew".to_string(),
        format!("iadd {}", hex(&prog)),
        "iexpect ok".into(),
        "isym new".into(),
        format!("isym finish {seed}"),
        "imark macro".into(),
        "inew".into(),
        format!("iadd {}", hex(&flat)),
        "iexpect ok".into(),
        "isym new".into(),
        format!("isym finish {seed}"),
        "imark flat".into(),
        "isame macro flat".into(),
    ];
    (format!("expansions={expansions}"), cmds)
}

/// C13: a well-formed program with exactly one planted rule violation.
fn gen_c13_case(r: &mut Rng, stats: &mut HashMap<String, usize>) -> (String, Vec<String>) {
    let p = qgen::gen_program(r, 5, true);
    let (bad, variant) = qgen::plant(r, &p.env);
    *stats.entry(format!("plant.{variant}")).or_default() += 1;
    let pos = r.below(p.stmts.len() + 1);
    let mut all = p.decls.clone();
    all.extend(p.stmts[..pos].iter().cloned());
    all.push(bad.clone());
    all.extend(p.stmts[pos..].iter().cloned());
    let mut cmds = vec!["inew".to_string(), format!("iadd {}", hex(&join_src(&all))), format!("iexpect {variant}")];
    // and the same program without the violation is accepted
    let mut good = p.decls.clone();
    good.extend(p.stmts.clone());
    cmds.push("inew".into());
    cmds.push(format!("iadd {}", hex(&join_src(&good))));
    cmds.push("iexpect ok".into());
    (format!("plant={variant} pos={pos}"), cmds)
}

/// C17: the same program fed whole, chunk by chunk through add_ast, and through
/// ast_changes + append_int.
fn gen_c17_case(r: &mut Rng, stats: &mut HashMap<String, usize>) -> (String, Vec<String>) {
    let p = qgen::gen_program(r, 5, true);
    let mut all = p.decls.clone();
    all.extend(p.stmts.clone());
    let k = r.range(1, all.len().min(5));
    // cut points
    let mut cuts: Vec<usize> = (0..k - 1).map(|_| r.range(1, all.len() - 1)).collect();
    // a border right before a guarded statement (the blocks on both sides of it then meet at the border)
    let ifs: Vec<usize> = (1..all.len()).filter(|&i| all[i].starts_with("if(")).collect();
    if !ifs.is_empty() && r.chance(1, 2) {
        cuts.push(*r.pick(&ifs[..]));
        if r.chance(1, 2) {
            cuts.push(*r.pick(&ifs[..]));
        }
    }
    cuts.sort();
    cuts.dedup();
    let mut chunks = Vec::new();
    let mut prev = 0;
    for c in cuts.iter().chain(std::iter::once(&all.len())) {
        if *c > prev {
            chunks.push(join_src(&all[prev..*c]));
            prev = *c;
        }
    }
    *stats.entry(format!("chunks.{}", chunks.len())).or_default() += 1;
    let seed = r.next() >> 1;
    let xor = r.chance(1, 4);
    let mut cmds = Vec::new();
    for (label, mode) in [("whole", 0), ("add", 1), ("chg", 2)] {
        cmds.push("inew".to_string());
        if xor {
            cmds.push("ixor".into());
        }
        match mode {
            0 => {
                cmds.push(format!("iadd {}", hex(&join_src(&all))));
                cmds.push(expected_kinds(&join_src(&all)));
            }
            1 => {
                for c in &chunks {
                    cmds.push(format!("iadd {}", hex(c)));
                    cmds.push(expected_kinds(c));
                }
            }
            _ => {
                for c in &chunks {
                    cmds.push(format!("ichg {}", hex(c)));
                }
            }
        }
        cmds.push(format!("iexpect asts {}", if mode == 0 { 1 } else { chunks.len() }));
        cmds.push("isym new".into());
        cmds.push(format!("isym finish {seed}"));
        cmds.push(format!("imark {label}"));
        if mode == 1 && r.chance(1, 2) {
            // re-running reproduces the run from |0...0>
            cmds.push("isym reset".into());
            cmds.push(format!("isym finish {seed}"));
            cmds.push("imark rerun".into());
            cmds.push("isame add rerun".into());
            cmds.push("isym init".into());
            cmds.push("imark afterinit".into());
            cmds.push("isame rerun afterinit".into());
        }
    }
    cmds.push("isame whole add".into());
    cmds.push("isame whole chg".into());
    (format!("chunks={}", chunks.len()), cmds)
}

/// C18: a rejected chunk leaves the session unchanged.
fn gen_c18_case(r: &mut Rng, stats: &mut HashMap<String, usize>) -> (String, Vec<String>) {
    let p = qgen::gen_program(r, 5, true);
    let ns = r.below(p.stmts.len() + 1);
    // late binding: the session holds a gate whose body names a gate that is defined only later (or a built-in that is
    // shadowed later); the rejected chunk defines that name and applies the outer gate before its error, the continuation
    // defines it differently and applies the outer gate again
    let late = r.chance(1, 4);
    let late_inner = if r.chance(1, 2) { "lbinner" } else { "h" };
    let session = {
        let mut v = p.decls.clone();
        if late {
            v.push(format!("gate lbouter a {{ {late_inner} a; }}"));
        }
        v.extend(p.stmts[..ns].iter().cloned());
        v
    };
    // failing chunk: some good statements (also a new register / gate), then the violation
    let p2 = qgen::gen_program(r, 5, true);
    let (mut bad, mut variant) = qgen::plant(r, &p.env);
    let npre = r.below(4);
    let mut failing: Vec<String> = Vec::new();
    let q0 = p.env.qubits()[0].clone();
    // the chunk is refused in the middle of expanding a gate that has parameters (its body applies an unknown gate after
    // using the parameter): nothing of that expansion - not even the name of the parameter - may be visible afterwards
    let pleak = r.chance(1, 6);
    let pname = *r.pick(&["theta", "kappa", "w"][..]);
    if pleak {
        bad = format!("gate pleak({pname}) a {{ rx({pname}) a; nosuchgate a; }}\npleak(0.5) {q0};");
        variant = "UnknownGate";
    }
    let fresh_reg = r.chance(1, 2);
    let fresh_gate = r.chance(1, 2);
    if fresh_reg {
        failing.push("qreg fresh[1];".into());
        if r.chance(1, 2) {
            failing.push("h fresh[0];".into());
        }
    }
    if fresh_gate {
        failing.push("gate freshg a { h a; }".into());
        // the new gate is also applied before the error (its definition has been looked up)
        if r.chance(2, 3) {
            failing.push(format!("freshg {q0};"));
        }
    }
    if late {
        failing.push(format!("gate {late_inner} a {{ x a; }}"));
        failing.push(format!("lbouter {q0};"));
    }
    // (statements around the late classical register `lt` are not re-used: its declaration may or may not be in the session)
    let reusable = |s: &String| !s.contains("lt[") && !s.contains("(lt==") && !s.starts_with("gate ");
    for s in p.stmts.iter().chain(p2.stmts.iter()).take(npre) {
        if p.stmts.contains(s) && reusable(s) {
            failing.push(s.clone());
        }
    }
    failing.push(bad);
    failing.extend(p.stmts.iter().filter(|s| reusable(s)).take(r.below(3)).cloned());
    *stats.entry(format!("plant.{variant}")).or_default() += 1;
    *stats.entry(format!("prefix.{}", failing.len() - 1)).or_default() += 1;
    let mut cont: Vec<String> = p.stmts[ns..].to_vec();
    if late {
        cont.insert(0, format!("lbouter {q0};"));
        cont.insert(0, format!("gate {late_inner} a {{ z a; s a; }}"));
        *stats.entry("late-binding".into()).or_default() += 1;
    }
    let seed = r.next() >> 1;
    let mut cmds = vec!["inew".to_string(), format!("iadd {}", hex(&join_src(&session))), "isnap".into()];
    cmds.push(format!("iadd {}", hex(&join_src(&failing))));
    cmds.push(format!("iexpect {variant}"));
    cmds.push("iunchanged".into());
    // nothing of the rejected chunk is visible afterwards: its gate and its register are unknown
    if fresh_gate {
        cmds.push(format!("iadd {}", hex(&format!("freshg {q0};"))));
        cmds.push("iexpect UnknownGate".into());
        *stats.entry("probe.gate".into()).or_default() += 1;
    }
    if fresh_reg {
        cmds.push(format!("iadd {}", hex("h fresh[0];")));
        cmds.push("iexpect NoQReg".into());
        *stats.entry("probe.reg".into()).or_default() += 1;
    }
    if pleak {
        cmds.push(format!("iadd {}", hex(&format!("rx({pname}) {q0};"))));
        cmds.push("iexpect UnevaluatedArgument".into());
        cmds.push("iunchanged".into());
        *stats.entry("probe.param".into()).or_default() += 1;
    }
    if !cont.is_empty() {
        cmds.push(format!("iadd {}", hex(&join_src(&cont))));
    }
    cmds.push("isym new".into());
    cmds.push(format!("isym finish {seed}"));
    cmds.push("imark after".into());
    // the same session without the failed attempt
    cmds.push("inew".into());
    cmds.push(format!("iadd {}", hex(&join_src(&session))));
    if !cont.is_empty() {
        cmds.push(format!("iadd {}", hex(&join_src(&cont))));
    }
    cmds.push("isym new".into());
    cmds.push(format!("isym finish {seed}"));
    cmds.push("imark clean".into());
    cmds.push("isame after clean".into());
    (format!("plant={variant}"), cmds)
}

const ADV_IDENTS: [&str; 14] = ["c", "C", "cc", "cx", "é", "cé", "ccé", "_", "c_", "x", "qreg", "pi", "h2", "averyveryveryveryveryverylongidentifiernamethatneverends"];

/// C12: mutated / adversarial source strings: parse, interpret and (when small) execute.
fn gen_fuzz_case(r: &mut Rng, stats: &mut HashMap<String, usize>) -> (String, Vec<String>) {
    let p = qgen::gen_program(r, 4, true);
    let mut all = p.decls.clone();
    all.extend(p.stmts.clone());
    let mut src = join_src(&all);
    let kind = r.below(13);
    let label = match kind {
        12 => {
            // operands that repeat a qubit (directly, through a whole register + one of its bits, through a user gate):
            // the arity / overlap checks must refuse them with an error value before any constructor is reached
            let q = p.env.qubits();
            let (q0, qn) = (q[0].clone(), p.env.qregs[0].0.clone());
            let g = *r.pick(&["swap", "sqrt_swap", "i_swap", "sqrt_i_swap", "rxx(0.4)", "ryy(0.4)", "rzz(0.4)", "cswap", "ccx", "cu3(1,2,3)", "crz(0.5)"][..]);
            let ops = match r.below(4) {
                0 => format!("{q0},{q0}"),
                1 => format!("{qn},{q0}"),
                2 => format!("{q0},{qn}"),
                _ => format!("{q0},{q0},{q0}"),
            };
            src = if r.chance(1, 3) {
                format!("{src}\ngate dupo a,b {{ {g} a,b; }}\ndupo {q0},{q0};")
            } else {
                format!("{src}\n{g} {ops};")
            };
            "dup-operand"
        }
        0 => {
            // token-level: drop / duplicate / swap whitespace-separated pieces
            let mut toks: Vec<String> = src.split_inclusive(|c: char| c == ' ' || c == ';' || c == ',').map(|s| s.to_string()).collect();
            for _ in 0..r.range(1, 3) {
                if toks.is_empty() { break; }
                let i = r.below(toks.len());
                match r.below(3) {
                    0 => { toks.remove(i); }
                    1 => { let t = toks[i].clone(); toks.insert(i, t); }
                    _ => { let j = r.below(toks.len()); toks.swap(i, j); }
                }
            }
            src = toks.concat();
            "tokens"
        }
        1 => {
            // character-level edits (kept valid UTF-8)
            let mut cs: Vec<char> = src.chars().collect();
            for _ in 0..r.range(1, 4) {
                if cs.is_empty() { break; }
                let i = r.below(cs.len());
                match r.below(3) {
                    0 => { cs.remove(i); }
                    1 => cs.insert(i, *r.pick(&['(', ')', '[', ']', '{', '}', ';', ',', '-', '>', '=', '"', 'é', '0', 'c', '^', '*', '/', ' ', '\n', '.'][..])),
                    _ => cs[i] = *r.pick(&['(', ')', '[', ']', ';', 'c', 'C', '9', 'e', '-'][..]),
                }
            }
            src = cs.into_iter().collect();
            "chars"
        }
        2 => { src.truncate(r.below(src.len() + 1)); while !src.is_char_boundary(src.len()) { src.pop(); } "truncated" }
        3 => {
            // adversarial gate names
            let name = *r.pick(&ADV_IDENTS[..]);
            let q = p.env.qubits();
            src.push_str(&format!("\n{name} {};", q[r.below(q.len())]));
            if r.chance(1, 2) { src.push_str(&format!("\n{name}(0.5) {},{};", q[0], q[q.len() - 1])); }
            "gate-name"
        }
        4 => {
            // adversarial register / gate definitions
            let name = *r.pick(&ADV_IDENTS[..]);
            src = format!("qreg {name}[2];\ncreg {name}c[2];\ngate {name}g a {{ h a; }}\n{name}g {name}[0];\nmeasure {name} -> {name}c;\n{src}");
            "ident"
        }
        5 => {
            // (mutually) recursive gate definitions
            let depth = r.range(1, 4);
            let mut defs = String::new();
            for i in 0..depth {
                defs.push_str(&format!("gate rec{i} a {{ rec{} a; }}\n", (i + 1) % depth));
            }
            // the applied gate is a member of the cycle, or only leads into it (a "lasso")
            let mut entry = "rec0".to_string();
            if r.chance(1, 2) {
                let tail = r.range(1, 2);
                let into = r.below(depth);
                for i in (0..tail).rev() {
                    let next = if i + 1 == tail { format!("rec{into}") } else { format!("lead{}", i + 1) };
                    defs.push_str(&format!("gate lead{i} a {{ h a; {next} a; }}\n"));
                }
                entry = "lead0".to_string();
            }
            src = format!("{src}\n{defs}{entry} {};", p.env.qubits()[0]);
            "recursion"
        }
        6 => {
            // numbers: huge, negative, odd literals
            let lit = *r.pick(&["99999999999999999999", "-1", "2147483648", "00", "1e400", "0x10", "1.", ".5", "1e", "64", "63"][..]);
            src = match r.below(3) {
                0 => format!("qreg big[{lit}];\n{src}"),
                1 => format!("{src}\nrx({lit}) {};", p.env.qubits()[0]),
                _ => format!("{src}\nx {}[{lit}];", p.env.qregs[0].0),
            };
            "numbers"
        }
        7 => {
            // nesting of if (bounded: deep nesting overflows the external parser, a known finding)
            let d = r.range(1, 30);
            let c = p.env.cregs.first().map(|c| c.0.clone()).unwrap_or("c".into());
            src = format!("{src}\n{}x {};", format!("if({c}==0) ").repeat(d), p.env.qubits()[0]);
            "nested-if"
        }
        8 => {
            // parameter expressions: odd but finite
            let e = *r.pick(&["--1", "+-+1", "2^3^2", "((((1))))", "1-", "()", "sqrt()", "sqrt(1,2)", "max(1)", "atan2(1)", "foo(1)", "pi pi", "2pi", "1e-3", "abs(-2)", "5 % 3", "ln(2.718281828)"][..]);
            src = format!("{src}\nrz({e}) {};", p.env.qubits()[0]);
            "expr"
        }
        9 => {
            if r.chance(1, 3) {
                src = String::new();
                "empty"
            } else {
                // names from the wrong scope inside a gate body: a parameter used as a qubit, a
                // qubit used as a parameter, a global register, another gate's name
                let pool = ["a", "b", "t", "u", "q", "c", "foo", "pi"];
                let mut body = String::new();
                for _ in 0..r.range(1, 3) {
                    let g = *r.pick(&["rx", "h", "cx", "u1", "foo", "rzz"][..]);
                    let np = if g == "rx" || g == "u1" || g == "rzz" { 1 } else { 0 };
                    let nq = if g == "cx" || g == "rzz" { 2 } else { 1 };
                    let ps: Vec<&str> = (0..np).map(|_| *r.pick(&pool[..])).collect();
                    let qs: Vec<&str> = (0..nq).map(|_| *r.pick(&pool[..])).collect();
                    body.push_str(&format!("{g}{} {}; ", if np > 0 { format!("({})", ps.join(",")) } else { String::new() }, qs.join(",")));
                }
                let q = p.env.qubits();
                src = format!("{src}\ngate foo a {{ h a; }}\ngate conf(t,u) a,b {{ {body}}}\nconf(0.5,0.25) {},{};", q[0], q[q.len() - 1]);
                "scope"
            }
        }
        10 => { src = format!("OPENQASM {};\n{src}", *r.pick(&["2.0", "3.0", "2", "", "x"][..])); "version" }
        _ => "valid",
    };
    *stats.entry(format!("mut.{label}")).or_default() += 1;
    // a source whose last token is an identifier never returns from the external lexer
    // (known finding D21); the generated stream stays clear of it
    if src.chars().last().map(|c| c.is_alphanumeric() || c == '_').unwrap_or(false) {
        src.push('\n');
    }
    let mut cmds = vec!["inew".to_string(), format!("iadd {}", hex(&src))];
    // execution is attempted by the driver-independent rule: accepted and small (a mutation can turn `q[3]` into `q[30]`:
    // 2^30 amplitudes are a matter of memory and time, not of the property; such a program is interpreted, not run)
    if declared_qubits(&src) <= 14 {
        cmds.push("isym new".into());
        cmds.push(format!("isym finish {}", r.next() >> 1));
    } else {
        *stats.entry("not-run.large-register".into()).or_default() += 1;
    }
    (format!("mut={label}"), cmds)
}

/// the sum of the sizes in all `qreg name[size]` declarations of a source text (saturating; by text, so that the decision
/// does not depend on what the interpreter makes of the program)
fn declared_qubits(src: &str) -> usize {
    let b = src.as_bytes();
    let mut total = 0usize;
    let mut i = 0;
    while i + 4 <= b.len() {
        if &b[i..i + 4] == b"qreg" {
            let mut j = i + 4;
            while j < b.len() && b[j] != b'[' && b[j] != b';' {
                j += 1;
            }
            if j < b.len() && b[j] == b'[' {
                let mut k = j + 1;
                let mut n = 0usize;
                while k < b.len() && b[k].is_ascii_digit() {
                    n = n.saturating_mul(10).saturating_add((b[k] - b'0') as usize);
                    k += 1;
                }
                total = total.saturating_add(n);
            }
            i = j;
        } else {
            i += 1;
        }
    }
    total
}

/// C09: one call of gates::process per case, every accepted name.
fn gen_c09_case(r: &mut Rng, stats: &mut HashMap<String, usize>) -> (String, Vec<String>) {
    let nq = r.range(1, 5);
    let all = (1usize << nq) - 1;
    let nctrl = if r.chance(1, 2) { r.range(1, 2.min(nq.saturating_sub(1)).max(1)) } else { 0 };
    let (base, ntarget, nparam): (&str, usize, usize) = match r.below(6) {
        0 => (*r.pick(&qgen::ONE_Q[..]), 1, 0),
        1 => (*r.pick(&qgen::ROT1[..]), 1, 1),
        2 => (*r.pick(&qgen::ROT2[..]), 2, 1),
        3 => (*r.pick(&qgen::TWO_Q[..]), 2, 0),
        4 => ("u2", 1, 2),
        _ => ("u3", 1, 3),
    };
    let upper = r.chance(1, 5);
    let name = format!("{}{}", "c".repeat(nctrl), if upper { base.to_uppercase() } else { base.to_string() });
    *stats.entry(format!("name.{}{}", "c".repeat(nctrl), base)).or_default() += 1;
    let mut cmds = Vec::new();
    // distinct single-bit masks; sometimes a multi-bit target for the "any" gates
    let mut regs: Vec<usize> = Vec::new();
    let need = nctrl + ntarget;
    if need <= nq {
        let m = r.kbits(all, need).unwrap();
        let mut bits: Vec<usize> = (0..64).filter(|b| m >> b & 1 == 1).map(|b| 1usize << b).collect();
        // random order
        for i in (1..bits.len()).rev() {
            bits.swap(i, r.below(i + 1));
        }
        regs = bits;
        if ntarget == 1 && nparam == 0 && r.chance(1, 4) {
            // whole-register style target: a multi-bit mask disjoint from the controls
            let used: usize = regs[..nctrl].iter().fold(0, |a, b| a | b);
            let t = r.submask(all & !used);
            if t != 0 {
                regs.truncate(nctrl);
                regs.push(t);
            }
        }
    } else {
        regs = vec![1];
    }
    let args: Vec<f64> = (0..nparam).map(|_| r.angle()).collect();
    let bad = r.below(12);
    let (regs, args) = match bad {
        0 => (regs[..regs.len().saturating_sub(1)].to_vec(), args),
        1 => (regs, { let mut a = args; a.push(0.5); a }),
        2 if !regs.is_empty() => { let mut g = regs.clone(); g[0] = *g.last().unwrap(); (g, args) }
        _ => (regs, args),
    };
    let mut c = format!("igate {} {}", hex(&name), regs.len());
    for g in &regs {
        c.push_str(&format!(" {g}"));
    }
    c.push_str(&format!(" {}", args.len()));
    for a in &args {
        c.push_str(&format!(" {}", a.to_bits()));
    }
    c.push_str(&format!(" {nq}"));
    cmds.push(c);
    (format!("name={name} nq={nq}"), cmds)
}

/// C08: a script of register operations, single-threaded against k threads.
fn gen_c08_case(r: &mut Rng, max_n: usize, big: bool, stats: &mut HashMap<String, usize>) -> (String, Vec<String>) {
    let avail = rayon::current_num_threads();
    // now and then: 8 qubits, a gate with several controls that are all at qubits 6 and 7 (control masks of 64 and more:
    // whole blocks of the buffer share their control bits), on a state that has some but not all of the controls set
    let high_ctrl = r.chance(1, 12);
    let n = if high_ctrl { 8 } else if big && r.chance(1, 3) { r.range(10, 14) } else { r.range(0, max_n) };
    let k = r.range(2, avail.max(2));
    let mut script: Vec<String> = vec![format!("qreg {n} THR")];
    script.push(format!("setpsi {}", cvec(&rand_psi(r, n, false))));
    if high_ctrl {
        let t = r.kbits(0b0011_1111, 1).unwrap();
        let g = *r.pick(&["x", "h", "z", "s"][..]);
        script.push(format!("op {}", ops::prog_text(&vec![ops::Tok::G(g, t), ops::Tok::C(0b1100_0000)])));
        script.push("apply".into());
    }
    for _ in 0..r.range(1, 5) {
        match r.below(8) {
            0..=3 => {
                let nb = n.min(8);
                script.push(format!("op {}", ops::prog_text(&unitary_prog(r, nb))));
                script.push("apply".into());
            }
            4 => script.push("probs".into()),
            5 => {
                script.push(format!("collapse {} {}", r.below(1usize << n.min(20)), r.submask((1usize << n.min(20)) - 1)));
                script.push("normalize".into());
            }
            6 if n <= 8 => {
                script.push(format!("q2state {} {} THR", r.range(0, 2), 1));
                script.push("tensor".into());
            }
            _ => script.push("absolute".into()),
        }
    }
    script.push("psi".into());
    *stats.entry(format!("n.{}", if n >= 10 { "big".to_string() } else { n.to_string() })).or_default() += 1;
    *stats.entry(format!("k.{k}")).or_default() += 1;
    let reps = if n >= 10 { 3 } else { 2 };
    let mut cmds = vec!["threads".to_string(), format!("par {k} {reps} ;; {}", script.join(" ;; "))];
    // refusal of inadmissible thread counts
    let bad = *r.pick(&[0usize, avail + 1, avail + 7, 1, avail]);
    cmds.push(format!("qreg 1 {bad}"));
    (format!("n={n} k={k}"), cmds)
}

fn gen_c19_case(r: &mut Rng, stats: &mut HashMap<String, usize>) -> (String, Vec<String>) {
    let mode = *r.pick(&["os", "rayon", "nested", "firstuse", "churn"][..]);
    let tasks = if mode == "churn" { r.range(3, 5) } else { r.range(2, 48) };
    *stats.entry(format!("mode.{mode}")).or_default() += 1;
    (format!("mode={mode} tasks={tasks}"), vec![format!("conc {mode} {tasks} {}", r.next() >> 1)])
}

fn gen_dft_case(r: &mut Rng, max_n: usize, max_thr: usize, stats: &mut HashMap<String, usize>) -> (String, Vec<String>) {
    // now and then a register of 8 qubits (masks with several selected qubits at positions 6 and 7: control masks of
    // 64 and more, strides beyond the small block sizes) whatever the size limit of the tier
    let n = if r.chance(1, 25) { 8 } else { r.range(1, max_n.max(1)) };
    let all = (1usize << n) - 1;
    let m = if r.chance(1, 3) { all } else if n == 8 && r.chance(1, 2) { 0b1100_0000 | r.submask(all) } else { r.submask(all) };
    let kind = r.below(2);
    *stats.entry(format!("dft.bits.{}", m.count_ones())).or_default() += 1;
    let thr = threads_choice(r, max_thr);
    let mut cmds = vec![format!("qreg {n} {thr}")];
    if r.chance(1, 3) {
        cmds = vec![format!("qstate {n} {} {thr}", r.below(1 << n))];
    } else {
        cmds.push(format!("setpsi {}", cvec(&rand_psi(r, n, false))));
    }
    cmds.push(format!("dft {m} {kind}"));
    (format!("n={n} mask={m} kind={kind}"), cmds)
}

pub fn run(suite: &str, seed: u64, count: usize, kv: &HashMap<String, String>, tr: &mut Trace) -> String {
    let mut stats: HashMap<String, usize> = HashMap::new();
    let max_n: usize = kv.get("max_n").and_then(|s| s.parse().ok()).unwrap_or(6);
    let max_thr: usize = kv
        .get("max_thr")
        .and_then(|s| s.parse().ok())
        .unwrap_or_else(|| rayon::current_num_threads().min(8));
    let mut root = Rng::new(seed ^ 0x5EED);
    let exhaustive = if suite == "c01x" { c01x_cases(max_n.min(4)) } else { Vec::new() };
    let count = if suite == "c01x" { exhaustive.len() } else { count };
    let long = kv.get("long").map(|s| s == "1").unwrap_or(false);
    for idx in 0..count {
        let mut r = root.fork(idx as u64);
        let (tags, cmds) = match suite {
            "ops" => gen_ops_case(&mut r, max_n, max_thr, &mut stats),
            "c01" => gen_c01_case(&mut r, max_n, max_thr, &mut stats),
            "c01x" => gen_c01x_case(&exhaustive[idx], &mut stats),
            "c02" => gen_c02_case(&mut r, max_n, max_thr, &mut stats),
            "c03" => gen_c03_case(&mut r, max_n, max_thr, &mut stats),
            "c04" => gen_c04_case(&mut r, max_n, max_thr, long, &mut stats),
            "reg" => gen_reg_case(&mut r, max_n, max_thr, &mut stats),
            "hist" => gen_hist_case(&mut r, max_n, max_thr, kv.get("steps").and_then(|s| s.parse().ok()).unwrap_or(12), &mut stats),
            "meas" => gen_meas_case(&mut r, max_n, max_thr, &mut stats),
            "sample" => gen_sample_case(&mut r, max_n, max_thr, &mut stats),
            "born" => gen_born_case(&mut r, max_thr, kv.get("shots").and_then(|s| s.parse().ok()).unwrap_or(4096), &mut stats),
            "bits" => gen_bits_case(&mut r, &mut stats),
            "c08" => gen_c08_case(&mut r, max_n, kv.get("big").map(|s| s == "1").unwrap_or(false), &mut stats),
            "c19" => gen_c19_case(&mut r, &mut stats),
            "int" => gen_int_case(&mut r, false, &mut stats),
            "intnu" => gen_int_case(&mut r, true, &mut stats),
            "c13" => gen_c13_case(&mut r, &mut stats),
            "c10e" => gen_c10e_case(&mut r, &mut stats),
            "c10f" => gen_c10f_case(&mut r, &mut stats),
            "c17" => gen_c17_case(&mut r, &mut stats),
            "c18" => gen_c18_case(&mut r, &mut stats),
            "c09" => gen_c09_case(&mut r, &mut stats),
            "fuzz" => gen_fuzz_case(&mut r, &mut stats),
            "dft" => gen_dft_case(&mut r, max_n, max_thr, &mut stats),
            other => panic!("unknown suite {other}"),
        };
        run_case(tr, (suite, seed, idx, &tags), &cmds);
        if ABORT.load(std::sync::atomic::Ordering::SeqCst) {
            break;
        }
    }
    let mut keys: Vec<_> = stats.iter().collect();
    keys.sort();
    let s: Vec<String> = keys.iter().map(|(k, v)| format!("{k}={v}")).collect();
    format!("stats {}", s.join(" "))
}
