//! Command executor (real crate) and case generators.
//!
//! A case is a list of command lines; `exec` runs one command against the implementation
//! state and returns the observation that is written after the `|`.

use std::collections::HashMap;
use std::panic::{catch_unwind, AssertUnwindSafe};

use qvnt::prelude::*;

use crate::ops::{self, Built, GenCfg};
use crate::rng::Rng;
use crate::trace::{cvec, Trace, C};

#[derive(Default)]
pub struct St {
    pub op: Option<MultiOp>,
    pub q: Option<QReg>,
}

fn parse_cvec(toks: &[&str]) -> Option<Vec<C>> {
    let n: usize = toks.first()?.parse().ok()?;
    if toks.len() < 1 + 2 * n {
        return None;
    }
    let mut v = Vec::with_capacity(n);
    for k in 0..n {
        let re = f64::from_bits(toks[1 + 2 * k].parse().ok()?);
        let im = f64::from_bits(toks[2 + 2 * k].parse().ok()?);
        v.push(C { re, im });
    }
    Some(v)
}

fn exec_inner(st: &mut St, cmd: &str) -> String {
    let toks: Vec<&str> = cmd.split_whitespace().collect();
    match toks[0] {
        "op" => {
            let prog = ops::parse_prog(&toks[1..].join(" ")).expect("bad op program");
            let b = ops::build(&prog);
            let obs = ops::built_obs(&b);
            st.op = match b {
                Built::Ok(o) => Some(o),
                _ => None,
            };
            obs
        }
        "qreg" => {
            let n: usize = toks[1].parse().unwrap();
            let thr: usize = toks[2].parse().unwrap();
            match QReg::new(n).num_threads(thr) {
                Some(q) => {
                    st.q = Some(q);
                    "ok".into()
                }
                None => {
                    st.q = None;
                    "none".into()
                }
            }
        }
        "qstate" => {
            let n: usize = toks[1].parse().unwrap();
            let s: usize = toks[2].parse().unwrap();
            let thr: usize = toks[3].parse().unwrap();
            match QReg::with_state(n, s).num_threads(thr) {
                Some(q) => {
                    st.q = Some(q);
                    "ok".into()
                }
                None => {
                    st.q = None;
                    "none".into()
                }
            }
        }
        "setpsi" => {
            let v = parse_cvec(&toks[1..]).expect("bad setpsi");
            st.q.as_mut().expect("no qreg").verif_set_psi(v);
            String::new()
        }
        "psi" => cvec(st.q.as_ref().expect("no qreg").verif_psi()),
        "apply" => {
            let q = st.q.as_mut().expect("no qreg");
            q.apply(st.op.as_ref().expect("no op"));
            cvec(q.verif_psi())
        }
        "applyeach" => {
            let q = st.q.as_mut().expect("no qreg");
            for g in st.op.as_ref().expect("no op").iter() {
                q.apply(g);
            }
            cvec(q.verif_psi())
        }
        "dft" => {
            let m: usize = toks[1].parse().unwrap();
            let o = if toks[2] == "1" { op::qft_swapped(m) } else { op::qft(m) };
            let q = st.q.as_mut().expect("no qreg");
            q.apply(&o);
            cvec(q.verif_psi())
        }
        "matrix" => {
            let size: usize = toks[1].parse().unwrap();
            let m = st.op.as_ref().expect("no op").matrix(size);
            let flat: Vec<C> = m.into_iter().flatten().collect();
            cvec(&flat)
        }
        other => panic!("unknown command {other}"),
    }
}

pub fn exec(st: &mut St, cmd: &str) -> String {
    match catch_unwind(AssertUnwindSafe(|| exec_inner(st, cmd))) {
        Ok(s) => s,
        Err(e) => {
            let loc = crate::LAST_PANIC_LOC.with(|l| l.borrow().clone());
            format!("panic {} {}", loc, crate::panic_msg(&e).replace(' ', "_"))
        }
    }
}

/// Run a generated case: header + commands, executing each.
pub fn run_case(tr: &mut Trace, header: (&str, u64, usize, &str), cmds: &[String]) {
    tr.case(header.0, header.1, header.2, header.3);
    let mut st = St::default();
    for c in cmds {
        let obs = exec(&mut st, c);
        tr.line(c, &obs);
    }
}

pub fn replay(text: &str, tr: &mut Trace) {
    let mut st = St::default();
    for line in text.lines() {
        let line = line.trim();
        if line.is_empty() || line.starts_with('#') {
            continue;
        }
        if let Some(rest) = line.strip_prefix("case ") {
            st = St::default();
            tr.cases += 1;
            tr.buf.push_str(&format!("case {rest}\n"));
            continue;
        }
        let cmd = line.split('|').next().unwrap().trim();
        let obs = exec(&mut st, cmd);
        tr.line(cmd, &obs);
    }
}

// ---------------------------------------------------------------------------------------

pub fn rand_psi(r: &mut Rng, n: usize, pad_garbage: bool) -> Vec<C> {
    let size = 1usize << n;
    let len = size.max(8);
    let mut v: Vec<C> = (0..len)
        .map(|i| {
            if i < size || pad_garbage {
                C { re: r.sym(), im: r.sym() }
            } else {
                C { re: 0.0, im: 0.0 }
            }
        })
        .collect();
    // sparse states now and then
    if r.chance(1, 4) {
        for z in v.iter_mut().take(size) {
            if r.chance(1, 2) {
                *z = C { re: 0.0, im: 0.0 };
            }
        }
    }
    let norm: f64 = v.iter().take(size).map(|z| z.re * z.re + z.im * z.im).sum::<f64>().sqrt();
    if norm > 1e-6 {
        for z in v.iter_mut().take(size) {
            z.re /= norm;
            z.im /= norm;
        }
    } else {
        v[0] = C { re: 1.0, im: 0.0 };
    }
    v
}

fn threads_choice(r: &mut Rng, max_thr: usize) -> usize {
    if r.chance(1, 2) {
        1
    } else {
        r.range(2, max_thr.max(2))
    }
}

fn gen_ops_case(r: &mut Rng, max_n: usize, max_thr: usize, stats: &mut HashMap<String, usize>) -> (String, Vec<String>) {
    let n = r.range(0, max_n);
    let bits = if n < 3 && r.chance(1, 10) { 3 } else { n };
    let cfg = GenCfg { bits, max_depth: 3, bad_permille: 60 };
    let prog = ops::gen_prog(r, &cfg, 0);
    let mut cmds = vec![format!("op {}", ops::prog_text(&prog))];
    for t in &prog {
        let k = match t {
            ops::Tok::Id => "id".to_string(),
            ops::Tok::G(k, _) => k.to_string(),
            ops::Tok::R(k, _, _) => k.to_string(),
            ops::Tok::U2(..) => "u2".into(),
            ops::Tok::U3(..) => "u3".into(),
            ops::Tok::C(_) => "c".into(),
            ops::Tok::Dgr => "dgr".into(),
            _ => "mul".into(),
        };
        *stats.entry(format!("tok.{k}")).or_default() += 1;
    }
    let built = ops::build(&prog);
    *stats
        .entry(format!(
            "built.{}",
            match &built {
                Built::Ok(_) => "ok",
                Built::Refused => "refused",
                Built::Panic(_) => "panic",
            }
        ))
        .or_default() += 1;
    *stats.entry(format!("n.{n}")).or_default() += 1;
    if let Built::Ok(o) = &built {
        let thr = threads_choice(r, max_thr);
        cmds.push(format!("qreg {n} {thr}"));
        let psi = rand_psi(r, n, bits > n);
        cmds.push(format!("setpsi {}", cvec(&psi)));
        cmds.push(if r.chance(1, 5) { "applyeach".into() } else { "apply".into() });
        // second application on the evolved state
        if r.chance(1, 3) {
            cmds.push("apply".into());
        }
        let act = o.act_on();
        for size in 0..=3usize {
            if act < (1usize << size) && r.chance(1, 2) && o.len() <= 12 {
                cmds.push(format!("matrix {size}"));
                break;
            }
        }
    }
    (format!("n={n} bits={bits}"), cmds)
}

fn gen_dft_case(r: &mut Rng, max_n: usize, max_thr: usize, stats: &mut HashMap<String, usize>) -> (String, Vec<String>) {
    let n = r.range(1, max_n.max(1));
    let all = (1usize << n) - 1;
    let m = if r.chance(1, 3) { all } else { r.submask(all) };
    let kind = r.below(2);
    *stats.entry(format!("dft.bits.{}", m.count_ones())).or_default() += 1;
    let thr = threads_choice(r, max_thr);
    let mut cmds = vec![format!("qreg {n} {thr}")];
    if r.chance(1, 3) {
        cmds = vec![format!("qstate {n} {} {thr}", r.below(1 << n))];
    } else {
        cmds.push(format!("setpsi {}", cvec(&rand_psi(r, n, false))));
    }
    cmds.push(format!("dft {m} {kind}"));
    (format!("n={n} mask={m} kind={kind}"), cmds)
}

pub fn run(suite: &str, seed: u64, count: usize, kv: &HashMap<String, String>, tr: &mut Trace) -> String {
    let mut stats: HashMap<String, usize> = HashMap::new();
    let max_n: usize = kv.get("max_n").and_then(|s| s.parse().ok()).unwrap_or(6);
    let max_thr: usize = kv
        .get("max_thr")
        .and_then(|s| s.parse().ok())
        .unwrap_or_else(|| rayon::current_num_threads().min(8));
    let mut root = Rng::new(seed ^ 0x5EED);
    for idx in 0..count {
        let mut r = root.fork(idx as u64);
        let (tags, cmds) = match suite {
            "ops" => gen_ops_case(&mut r, max_n, max_thr, &mut stats),
            "dft" => gen_dft_case(&mut r, max_n, max_thr, &mut stats),
            other => panic!("unknown suite {other}"),
        };
        run_case(tr, (suite, seed, idx, &tags), &cmds);
    }
    let mut keys: Vec<_> = stats.iter().collect();
    keys.sort();
    let s: Vec<String> = keys.iter().map(|(k, v)| format!("{k}={v}")).collect();
    format!("stats {}", s.join(" "))
}
