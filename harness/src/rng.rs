//! One deterministic PRNG (xorshift64*) from which every random choice of the harness is
//! derived, so that a disagreement replays exactly from (suite, seed, case index).

#[derive(Clone)]
pub struct Rng(pub u64);

impl Rng {
    pub fn new(seed: u64) -> Self {
        let mut r = Rng(seed.wrapping_mul(0x9E3779B97F4A7C15) ^ 0xD1B54A32D192ED03);
        if r.0 == 0 {
            r.0 = 0x2545F4914F6CDD1D;
        }
        for _ in 0..4 {
            r.next();
        }
        r
    }
    pub fn fork(&mut self, tag: u64) -> Rng {
        Rng::new(self.next() ^ tag.wrapping_mul(0xA24BAED4963EE407))
    }
    pub fn next(&mut self) -> u64 {
        let mut x = self.0;
        x ^= x >> 12;
        x ^= x << 25;
        x ^= x >> 27;
        self.0 = x;
        x.wrapping_mul(0x2545F4914F6CDD1D)
    }
    pub fn below(&mut self, n: usize) -> usize {
        if n == 0 {
            0
        } else {
            (self.next() % n as u64) as usize
        }
    }
    pub fn range(&mut self, lo: usize, hi_incl: usize) -> usize {
        lo + self.below(hi_incl - lo + 1)
    }
    pub fn chance(&mut self, num: usize, den: usize) -> bool {
        self.below(den) < num
    }
    pub fn pick<'a, T>(&mut self, xs: &'a [T]) -> &'a T {
        &xs[self.below(xs.len())]
    }
    /// uniform in [0,1)
    pub fn unit(&mut self) -> f64 {
        (self.next() >> 11) as f64 / (1u64 << 53) as f64
    }
    /// uniform in [-1,1)
    pub fn sym(&mut self) -> f64 {
        2.0 * self.unit() - 1.0
    }
    /// a random subset of the bits of `within` (each bit with probability 1/2)
    pub fn submask(&mut self, within: usize) -> usize {
        (self.next() as usize) & within
    }
    /// a mask with exactly `k` bits chosen from the bits of `within` (None if too few)
    pub fn kbits(&mut self, within: usize, k: usize) -> Option<usize> {
        let mut avail: Vec<usize> = (0..64).filter(|b| within >> b & 1 == 1).collect();
        if avail.len() < k {
            return None;
        }
        let mut m = 0usize;
        for _ in 0..k {
            let i = self.below(avail.len());
            m |= 1usize << avail.swap_remove(i);
        }
        Some(m)
    }
    pub fn angle(&mut self) -> f64 {
        use std::f64::consts::PI;
        const FIXED: [f64; 22] = [
            0.0, PI, -PI, 2.0 * PI, PI / 2.0, -PI / 2.0, PI / 4.0, -PI / 4.0, PI / 8.0, 3.0 * PI,
            7.3, -11.9, 0.7, 1e-3,
            -2.0 * PI, -3.0 * PI, 4.0 * PI, -4.0 * PI, 2.5 * PI, -2.5 * PI, 6.0 * PI, -5.0 * PI,
        ];
        if self.chance(1, 2) {
            *self.pick(&FIXED)
        } else {
            self.sym() * 4.0 * PI
        }
    }
}
