//! C19: registers driven concurrently from several caller threads (plain OS threads or
//! workers of the caller's own rayon pool), with differing per-register thread counts.
//! Each task's result is compared with the same calls made alone, single-threaded.

use qvnt::prelude::*;
use rayon::prelude::*;

use crate::rng::Rng;

fn task_ops(seed: u64, t: usize) -> (usize, MultiOp, usize) {
    let mut r = Rng::new(seed ^ (t as u64).wrapping_mul(0x9E37));
    let n = r.range(3, 9);
    let all = (1usize << n) - 1;
    let mut op = op::h(all);
    for _ in 0..r.range(2, 6) {
        let a = r.kbits(all, 1).unwrap();
        let b = r.kbits(all & !a, 1).unwrap();
        op = op * match r.below(4) {
            0 => op::x(a).c(b).unwrap(),
            1 => op::rz(r.angle(), a),
            2 => op::ryy(r.angle(), a | b),
            _ => op::h(a | b),
        };
    }
    let avail = rayon::current_num_threads().max(2);
    let thr = 1 + (t + r.below(3)) % avail.min(6);
    (n, op, thr)
}

fn run_task(seed: u64, t: usize, thr_override: Option<usize>) -> Vec<u64> {
    let (n, op, thr) = task_ops(seed, t);
    let thr = thr_override.unwrap_or(thr);
    let mut q = QReg::new(n).num_threads(thr).expect("thread count");
    q.apply(&op);
    let mut q2 = QReg::new(1).num_threads(thr).unwrap();
    q2.apply(&op::h(1));
    let q = q * q2;
    let p = q.get_probabilities();
    let mut out: Vec<u64> = q.verif_psi().iter().flat_map(|z| [z.re.to_bits(), z.im.to_bits()]).collect();
    out.push((p.iter().sum::<f64>() * 1e9).round() as u64);
    out
}

pub fn run(mode: &str, tasks: usize, seed: u64) -> String {
    // the same calls made alone, single-threaded. If they do not even return there (a gate constructor that panics, say),
    // the scenario says nothing about concurrent use: it is reported as `ok .. refpanic` (the trace is still replayed)
    let reference: Vec<Vec<u64>> = match std::panic::catch_unwind(|| (0..tasks).map(|t| run_task(seed, t, Some(1))).collect()) {
        Ok(r) => r,
        Err(_) => return format!("ok {tasks} refpanic"),
    };
    let results: Vec<Vec<u64>> = match mode {
        "os" | "firstuse" => {
            let hs: Vec<_> = (0..tasks)
                .map(|t| std::thread::spawn(move || run_task(seed, t, None)))
                .collect();
            hs.into_iter().map(|h| h.join().unwrap_or_default()).collect()
        }
        "churn" => {
            // a few caller threads, many rounds each, with thread counts that differ between the callers and change from
            // round to round (out of phase): the shared pool is rebuilt again and again while other callers are between
            // their size check and their `install`
            let avail = rayon::current_num_threads().max(2);
            let rounds = 60;
            let hs: Vec<_> = (0..tasks)
                .map(|t| {
                    std::thread::spawn(move || {
                        let mut last = Vec::new();
                        for k in 0..rounds {
                            let thr = 2 + (t + k) % 2.min(avail - 1).max(1);
                            let r = run_task(seed, t, Some(thr.min(avail)));
                            if k > 0 && r != last {
                                return Vec::new();
                            }
                            last = r;
                        }
                        last
                    })
                })
                .collect();
            hs.into_iter().map(|h| h.join().unwrap_or_default()).collect()
        }
        "rayon" => (0..tasks).into_par_iter().map(|t| run_task(seed, t, None)).collect(),
        _ => {
            // nested: a private pool whose workers each drive registers
            let pool = rayon::ThreadPoolBuilder::new().num_threads(4).build().unwrap();
            pool.install(|| (0..tasks).into_par_iter().map(|t| run_task(seed, t, None)).collect())
        }
    };
    let bad = results.iter().zip(reference.iter()).position(|(a, b)| a != b);
    match bad {
        None => format!("ok {tasks}"),
        Some(i) => format!("differs task={i}"),
    }
}
